"""Engine: serialized request processing (C15).

  1. design check: TLC exhaustively on Serialize.tla
       a. the lock protocol of the request handlers AS THEY ARE TODAY (3 concurrent requests of every handler kind):
          Inv_Mutex restricted to the kinds that lock correctly, Inv_AtMostOne, deadlock freedom, termination under weak
          fairness; every handler kind named in the constant UnlockedKinds is a DEVIATION of the code from the
          architecture's rule (take the lock before touching cache/policy): for each of them TLC must find the
          Inv_Mutex counterexample when it is no longer excused (otherwise the model is wrong -> inconclusive)
       b. the pod-resource rendezvous (wait channel created before the fetch goroutine starts): Act_ReadSeesFetch;
          the OLD ordering (channel created inside the goroutine) must violate it
  2. drivers: seeded sessions (world x rounds x 4-8 goroutine programs) -- the Go scheduler decides the interleaving
  3. the REAL resource manager, concurrently (harness/cmd/concdrv, built without and with the race detector)
  4. TLC validates the round records against Trace_Serialize (Inv_AtMostOne, Inv_Mutex, Act_Terminates, Act_NoPanic,
     Act_SequentialEquivalent, Act_ReadSeesFetch) and the serialized histories against Trace_L2 (C01-C05 predicates);
     race-detector reports become `unsynchronized-access` records of the same trace
  5. verdict from real-code traces only
"""
import concurrent.futures as cf
import copy
import json
import os
import random
import re
import shutil
import time

import vlib
from engines import l2 as l2eng
from engines import l2gen
from engines.memalloc import validate_chunks

PROPS = ["C15"]

PREDS = {"Inv_AtMostOne", "Inv_Mutex", "Act_Terminates", "Act_NoPanic", "Act_SequentialEquivalent", "Act_ReadSeesFetch"}
L2_OWNERS = ["C01", "C02", "C03", "C04", "C05"]
L2_PREDS = set().union(*[l2eng.PREDS[p] for p in L2_OWNERS])

KINDS = ["RunPodSandbox", "StopPodSandbox", "RemovePodSandbox", "CreateContainer", "StartContainer", "UpdateContainer",
         "StopContainer", "RemoveContainer", "Synchronize", "Reconfigure"]


# ----------------------------------------------------------------------------------------------- session generator

def gen_session(world, rnd, nrounds, sid):
    """One world, `nrounds` rounds of 4-8 goroutine programs.  Every goroutine drives its OWN pods and containers through
    a consistent lifecycle (any interleaving of the goroutines is a legal request sequence); some goroutines touch shared
    objects: updates of containers that stay alive during the round, reconfiguration, Synchronize (last round only)."""
    pods = {}      # pod -> {"qos", "ctrs": [ids], "stopped": bool}
    ctrs = {}      # ctr -> created | running | stopped
    pod_of = {}
    rounds = []
    policy = world["policy"]
    big = rnd.random() < 0.2
    bulk_last = rnd.random() < 0.55
    for r in range(nrounds):
        bulk = bulk_last and r == nrounds - 1
        clean = (not bulk) and rnd.random() < 0.45     # no handler that works outside the lock today
        k = rnd.randint(4, 8)
        procs = []
        free_pods = [p for p in pods]
        rnd.shuffle(free_pods)
        carried = set()

        def life(g):
            ops = []
            p = "p%d_%d_%d" % (sid, r, g)
            pc = l2gen.pod_class(rnd, policy)
            pods[p] = {"qos": pc["qos"], "ctrs": []}
            ops.append({"op": "RunPod", "pod": p, "pods": pc})
            for j in range(rnd.choice([1, 1, 2])):
                c = "c%d_%d_%d_%d" % (sid, r, g, j)
                spec = l2gen.ctr_class(rnd, pc["qos"], big)
                ops.append({"op": "Create", "pod": p, "c": c, "ctr": spec})
                pods[p]["ctrs"].append(c)
                pod_of[c] = p
                ctrs[c] = "created"
                if rnd.random() < 0.8:
                    ops.append({"op": "Start", "pod": p, "c": c})
                    ctrs[c] = "running"
                if rnd.random() < 0.35:
                    ops.append({"op": "Update", "pod": p, "c": c, "ctr": l2gen.ctr_class(rnd, pc["qos"], big)})
            if rnd.random() < 0.5:
                ops += finish(p, full=not clean and rnd.random() < 0.7)
            return ops

        def finish(p, full):
            ops = []
            for c in pods[p]["ctrs"]:
                if ctrs.get(c) in ("created", "running"):
                    ops.append({"op": "Stop", "pod": p, "c": c})
                    ctrs[c] = "stopped"
            if full:
                ops.append({"op": "StopPod", "pod": p})
            for c in list(pods[p]["ctrs"]):
                if c in ctrs:
                    ops.append({"op": "Remove", "pod": p, "c": c})
                    del ctrs[c]
            if full:
                ops.append({"op": "RemovePod", "pod": p})
                del pods[p]
            else:
                pods[p]["ctrs"] = []
            return ops

        def carry(p):
            ops = []
            for c in pods[p]["ctrs"]:
                if ctrs.get(c) == "created" and rnd.random() < 0.7:
                    ops.append({"op": "Start", "pod": p, "c": c})
                    ctrs[c] = "running"
                if ctrs.get(c) in ("created", "running") and rnd.random() < 0.4:
                    ops.append({"op": "Update", "pod": p, "c": c, "ctr": l2gen.ctr_class(rnd, pods[p]["qos"], big)})
            if rnd.random() < 0.6 or not ops:
                ops += finish(p, full=not clean)
            return ops

        roles = []
        for g in range(k):
            x = rnd.random()
            if bulk:
                roles.append("sync" if g == 0 else rnd.choice(["reconf", "touch", "touch", "sync" if rnd.random() < 0.3 else "touch"]))
            elif x < 0.45 or not pods:
                roles.append("life")
            elif x < 0.70:
                roles.append("carry")
            elif x < 0.88:
                roles.append("touch")
            else:
                roles.append("reconf")
        # the pods whose lifecycle moves on in this round
        for g, role in enumerate(roles):
            if role == "carry":
                cand = [p for p in free_pods if p not in carried]
                if cand:
                    carried.add(cand[0])
                    roles[g] = ("carry", cand[0])
                else:
                    roles[g] = "life"
        # containers that stay alive during the whole round: nobody changes their lifecycle
        stable = [c for c, s in ctrs.items() if s in ("created", "running") and pod_of[c] not in carried]
        snapshot_pods = sorted(pods)
        snapshot_ctrs = {c: s for c, s in ctrs.items()}
        for g, role in enumerate(roles):
            if isinstance(role, tuple):
                procs.append(carry(role[1]))
            elif role == "life":
                procs.append(life(g))
            elif role == "touch":
                ops = []
                for _ in range(rnd.randint(1, 3)):
                    if stable:
                        c = rnd.choice(stable)
                        ops.append({"op": "Update", "pod": pod_of[c], "c": c,
                                    "ctr": l2gen.ctr_class(rnd, pods[pod_of[c]]["qos"], big), "tag": "shared"})
                    else:
                        ops.append({"op": "Reconfigure", "config": world["config"]})
                procs.append(ops)
            elif role == "reconf":
                procs.append([{"op": "Reconfigure", "config": reconf_variant(world, rnd)} for _ in range(rnd.randint(1, 2))])
            elif role == "sync":
                procs.append([{"op": "Sync", "pods_list": snapshot_pods, "ctrs": snapshot_ctrs}])
        rounds.append({"gmp": rnd.choice([1, 2, 16]), "seed": rnd.randrange(1 << 30), "procs": procs, "bulk": bulk})
    return {"world": world, "rounds": rounds}


def reconf_variant(world, rnd):
    """The configuration in force, or one that differs from it in a way that changes nothing for the pods of the sessions
    (a reserved namespace pattern no pod uses): the full reconfiguration path without a legitimate change of allocations."""
    cfg = copy.deepcopy(world["config"])
    if rnd.random() < 0.35:
        ns = [x for x in cfg.get("reservedPoolNamespaces", []) if x != "rsv-x"]
        cfg["reservedPoolNamespaces"] = ns + ([] if "rsv-x" in cfg.get("reservedPoolNamespaces", []) else ["rsv-x"])
    return cfg


def gen_sessions(ctx, binp, nsessions, nrounds, salt=0):
    rnd = random.Random(ctx.seed * 104729 + 15 + salt)
    ms = l2gen.machines(binp)
    worlds = l2gen.ta_worlds(ms, rnd, (nsessions + 1) // 2) + l2gen.balloons_worlds(ms, rnd, nsessions // 2)
    rnd.shuffle(worlds)
    return [gen_session(w, rnd, nrounds, i) for i, w in enumerate(worlds[:nsessions])]


# ----------------------------------------------------------------------------------------------- race reports

_HANDLER = re.compile(r"pkg/resmgr\.\(\*nriPlugin\)\.(Synchronize|RunPodSandbox|StopPodSandbox|RemovePodSandbox|CreateContainer|"
                      r"StartContainer|UpdateContainer|StopContainer|RemoveContainer)((?:\.\w+)*)$")
_RECONF = re.compile(r"pkg/resmgr\.\(\*resmgr\)\.(reconfigure|updateConfig)((?:\.\w+)*)$")
_FETCH = re.compile(r"pkg/resmgr/cache\.\(\*pod\)\.goFetchPodResources\.func\d+")
_LOCKFRAME = re.compile(r"pkg/resmgr\.\(\*resmgr\)\.(Lock|Unlock)$")

_src_cache = {}


def _source_path(path):
    ov = os.environ.get("VERIF_OVERLAY")
    if ov:
        try:
            rep = json.load(open(ov)).get("Replace", {})
            if path in rep and rep[path]:
                return rep[path]
        except (OSError, ValueError):
            pass
    return path


def _functions(path):
    """name -> (first line, last line, line of the first exclusive m.Lock() or None) for every method/function of a Go file."""
    if path in _src_cache:
        return _src_cache[path]
    tab = {}
    try:
        lines = open(_source_path(path)).read().split("\n")
    except OSError:
        lines = []
    cur, start, lock = None, 0, None
    for i, ln in enumerate(lines, 1):
        m = re.match(r"func (?:\([^)]*\) )?(\w+)\(", ln)
        if m and cur is None:
            cur, start, lock = m.group(1), i, None
        elif cur is not None:
            if lock is None and re.search(r"(?<![A-Za-z])m\.Lock\(\)", ln) and not ln.strip().startswith("//"):
                lock = i
            if ln == "}":
                tab[cur] = (start, i, lock)
                cur = None
    _src_cache[path] = tab
    return tab


def classify_side(frames):
    """frames: [(function, file, line)] innermost first.  Returns {kind, locked, at}: the request handler the access
    belongs to and whether it can be shown to have been made under the resource manager's lock: the stack passes through
    the shadowing Lock()/Unlock() (the harness' own projection under the lock), or the handler's frame is past the line of
    its m.Lock() in today's source."""
    hs = []
    for fn, fl, ln in frames:
        m = _HANDLER.search(fn)
        if m:
            hs.append((m.group(1), m.group(1), m.group(2), fl, ln))
            continue
        m = _RECONF.search(fn)
        if m:
            hs.append(("Reconfigure", m.group(1), m.group(2), fl, ln))
    top = next(("%s:%d" % (os.path.basename(fl), ln) for fn, fl, ln in frames if "/src/runtime/" not in fl and "/src/internal/" not in fl), "?")
    if any(_FETCH.search(fn) for fn, _, _ in frames):
        return {"kind": "PodResourcesFetch", "locked": False, "at": top}
    if any("concdrv.rendezvous" in fn for fn, _, _ in frames):
        return {"kind": "driver", "locked": True, "at": top}          # the driver stands for a handler that holds the lock
    if not hs:
        outer = next((fn for fn, fl, _ in reversed(frames) if "/src/runtime/" not in fl), "?")
        return {"kind": "background:" + outer.split("/")[-1], "locked": False, "at": top}
    plain = [h for h in hs if h[2] == ""]
    kind, fname, _, fl, ln = (plain[-1] if plain else hs[-1])
    locked = any(_LOCKFRAME.search(fn) for fn, _, _ in frames)
    if not locked:
        ent = _functions(fl).get(fname)
        locked = bool(ent and ent[2] and ln > ent[2])
    return {"kind": kind, "locked": locked, "at": top}


_ACCESS = re.compile(r"^(Write|Read|Previous write|Previous read|Atomic \w+|Previous atomic \w+) at 0x[0-9a-f]+ by (?:goroutine \d+|main goroutine):\n((?:  .*\n)+)", re.M)
_FRAME = re.compile(r"^  (\S+)\(\)\n\s+(\S+):(\d+)", re.M)


def parse_race_log(text):
    """Distinct race-detector reports -> records for Trace_Serialize."""
    recs, seen = [], set()
    for rep in text.split("==================\n"):
        if "WARNING: DATA RACE" not in rep:
            continue
        sides, inrepo = [], False
        for m in _ACCESS.finditer(rep):
            frames = [(a, b, int(c)) for a, b, c in _FRAME.findall(m.group(2))]
            inrepo = inrepo or any("containers/nri-plugins" in fn for fn, _, _ in frames)
            inner = next((fn for fn, fl, _ in frames if "/src/runtime/" not in fl), "")
            if inner.startswith("verifharness/") or inner.startswith("main."):
                inrepo = False              # the racing word belongs to the harness (only after a hang: the round is never joined)
                sides = []
                break
            s = classify_side(frames)
            s["op"] = m.group(1).lower()
            s["frames"] = ["%s %s:%d" % (fn.split("/")[-1], os.path.basename(fl), ln) for fn, fl, ln in frames
                           if "/src/runtime/" not in fl][:4]
            sides.append(s)
        if len(sides) < 2 or not inrepo:
            continue                        # (a report without any frame of the repository is about the harness itself)
        key = " || ".join(sorted("%s@%s" % (s["kind"], ",".join(s["frames"][:2])) for s in sides))
        if key in seen:
            continue
        seen.add(key)
        recs.append({"ev": "race", "key": key, "sides": sides})
    return recs


_GOR = re.compile(r"^goroutine \d+ (?:gp=\S+ m=\S+ (?:mp=\S+ )?)?\[([^\]\n]*)\]:\n((?:.+\n)+)", re.M)
_GFRAME = re.compile(r"^(\S+)\(.*\)\n\t(\S+):(\d+)", re.M)


def parse_crash(text):
    """`fatal error: concurrent map ...` kills the process: the goroutines that are inside a request handler at that moment
    are the sides of the unsynchronized access."""
    m = re.search(r"^(?:fatal error:|panic: |SIGSEGV|\[signal )", text, re.M)
    if not m:
        return None
    # (the runtime writes "fatal error: " and the message separately; log lines of other threads may come in between)
    w = re.search(r"concurrent map (?:read and map write|writes|iteration and map write)", text[m.start():m.start() + 20000])
    if w:
        what = w.group(0)
    else:
        # another death of the runtime (memory corrupted by unsynchronized writers: unexpected signal, bad pointer, nil map
        # ...): evidence only if a goroutine is executing a handler outside the lock at that moment -- see the caller
        what = "runtime died: " + re.sub(r"[^\w :.,()\[\]-]", "", text[m.start():m.start() + 100].split("\n")[0])[:80]
    tail = text[m.start():]
    sides = []
    for g in _GOR.finditer(tail):
        frames = [(a, b, int(c)) for a, b, c in _GFRAME.findall(g.group(2))]
        if not any("pkg/resmgr." in fn or "pkg/resmgr/cache." in fn for fn, _, _ in frames):
            continue
        if not re.match(r"running|runnable|syscall|IO wait", g.group(1)):
            continue                        # parked (waiting for a lock, a channel ...): not accessing anything
        s = classify_side(frames)
        if s["kind"].startswith("background:") or s["kind"] == "driver":
            continue
        s["frames"] = ["%s %s:%d" % (fn.split("/")[-1], os.path.basename(fl), ln) for fn, fl, ln in frames if "/src/runtime/" not in fl][:4]
        s["op"] = "in-handler-when-the-runtime-aborted"
        sides.append(s)
    if not w and not any(not x["locked"] for x in sides):
        return None
    key = what + ": " + " || ".join(sorted({"%s@%s" % (s["kind"], s["frames"][0] if s["frames"] else "?") for s in sides}))
    return {"ev": "crash", "key": key, "what": what, "sides": sides}


# ----------------------------------------------------------------------------------------------- design check

def _cfg_variant(ctx, base, name, subst):
    txt = open(os.path.join(vlib.SPEC, base)).read()
    for a, b in subst:
        if a not in txt:
            raise vlib.Inconclusive("configuration %s has no line %r" % (base, a))
        txt = txt.replace(a, b)
    p = ctx.path("cfg", name)
    open(p, "w").write(txt)
    return p


def _cfg_set(base, const):
    """The value of a set-valued constant of a cfg file, as a list of strings."""
    m = re.search(r"^\s*%s\s*=\s*\{([^}]*)\}" % const, open(os.path.join(vlib.SPEC, base)).read(), re.M)
    if not m:
        raise vlib.Inconclusive("constant %s not found in %s" % (const, base))
    return [x.strip().strip('"') for x in m.group(1).split(",") if x.strip()]


def _setlit(xs):
    return "{" + ", ".join('"%s"' % x for x in xs) + "}"


def design_check(ctx):
    """Returns (main result, summary dict).  Every run is small (<= 25 k states)."""
    unlocked = _cfg_set("MC_Serialize.cfg", "UnlockedKinds")
    jobs = {"lock": ("MC_Serialize.cfg", None), "live": ("MC_SerializeLive.cfg", None), "rv": ("MC_SerializeRv.cfg", None)}
    # every named deviation is real: without the excuse TLC finds the Inv_Mutex counterexample
    for k in unlocked:
        rest = [x for x in unlocked if x != k]
        jobs["dev:" + k] = (_cfg_variant(ctx, "MC_Serialize.cfg", "dev-%s.cfg" % k,
                                         [("UnlockedKinds = " + _setlit(unlocked), "UnlockedKinds = " + _setlit(rest))]), "Inv_MutexLocking")
    # the handlers as they were before /repo commit 06edfe4 (F-C15-1), all together and one kind at a time
    old_nolock = ["StopPodSandbox", "Synchronize"]
    old_pre = ["RemovePodSandbox"]
    jobs["dev:pre-06edfe4"] = (_cfg_variant(ctx, "MC_Serialize.cfg", "dev-old.cfg", [("NoLockKinds = {}", "NoLockKinds <- OldNoLockKinds"),
                                                                                     ("PreAccessKinds = {}", "PreAccessKinds <- OldPreAccessKinds")]), "Inv_MutexLocking")
    for k in old_nolock:
        jobs["dev:NoLock:" + k] = (_cfg_variant(ctx, "MC_Serialize.cfg", "dev-nolock-%s.cfg" % k, [("NoLockKinds = {}", "NoLockKinds = " + _setlit([k]))]), "Inv_MutexLocking")
    for k in old_pre:
        jobs["dev:PreAccess:" + k] = (_cfg_variant(ctx, "MC_Serialize.cfg", "dev-pre-%s.cfg" % k, [("PreAccessKinds = {}", "PreAccessKinds = " + _setlit([k]))]), "Inv_MutexLocking")
    # the old ordering of the rendezvous must violate Act_ReadSeesFetch
    jobs["dev:OldOrder"] = (_cfg_variant(ctx, "MC_SerializeRv.cfg", "dev-oldorder.cfg", [("OldOrder = FALSE", "OldOrder = TRUE")]), "Act_ReadSeesFetch")
    # leads for the seeded mutations: a handler that only takes the read lock; a handler that locks twice
    jobs["lead:RLock"] = (_cfg_variant(ctx, "MC_Serialize.cfg", "lead-rlock.cfg", [("RLockKinds = {}", 'RLockKinds = {"UpdateContainer"}')]), "Inv_MutexLocking")
    jobs["lead:LockTwice"] = (_cfg_variant(ctx, "MC_Serialize.cfg", "lead-twice.cfg", [("TwiceKinds = {}", 'TwiceKinds = {"CreateContainer"}')]), "deadlock")

    def one(item):
        name, (cfg, expect) = item
        r = vlib.tlc("MC_Serialize", cfg, ctx.path("mc", re.sub(r"\W", "_", name)), workers=2 if expect else 4, timeout=300, deadlock=True)
        return name, expect, r
    with cf.ThreadPoolExecutor(max_workers=len(jobs)) as ex:
        res = list(ex.map(one, jobs.items()))
    summary, main = {}, None
    for name, expect, r in res:
        got = r["violated"] or ("deadlock" if "Deadlock reached" in r["out"] else None)
        summary[name] = {"expected": expect or "no error", "got": got or ("no error" if r["ok"] else r["error"]), "states": r["distinct"]}
        if expect is None:
            if not r["ok"]:
                raise vlib.Inconclusive("design model check %s did not pass: violated=%s error=%s\n%s" % (name, r["violated"], r["error"], r["out"][-3000:]))
            if name == "lock":
                main = r
        elif got != expect:
            raise vlib.Inconclusive("design model: %s was expected to end with %s, TLC says %s (the model does not describe the deviation)\n%s"
                                    % (name, expect, got, r["out"][-2000:]))
    summary["named_deviations"] = {"UnlockedKinds": unlocked, "NoLockKinds": _cfg_set("MC_Serialize.cfg", "NoLockKinds"),
                                   "PreAccessKinds": _cfg_set("MC_Serialize.cfg", "PreAccessKinds")}
    return main, summary


# ----------------------------------------------------------------------------------------------- running the real code

def run_shard(binp, script, a, b, outdir, tag, race, extra=None, timeout=900):
    """Sessions [a, b) in one process; a process killed by the Go runtime (concurrent map access) is evidence, the remaining
    sessions go to a new process.  Returns (round files, l2 files, crash records, race logs, hang)."""
    rounds, l2s, crashes, hang = [], [], [], False
    shared = os.path.join(vlib.OUT, "fixtures-shared")
    os.makedirs(shared, exist_ok=True)
    attempt = 0
    while a < b:
        rp = os.path.join(outdir, "rounds-%s-%d.ndjson" % (tag, attempt))
        lp = os.path.join(outdir, "l2-%s-%d.ndjson" % (tag, attempt))
        ep = os.path.join(outdir, "stderr-%s-%d.log" % (tag, attempt))
        env = dict(os.environ, GOTRACEBACK="all", GORACE="log_path=%s halt_on_error=0 exitcode=0" % os.path.join(outdir, "race-%s-%d" % (tag, attempt)))
        cmd = [binp, "run", "--script", script, "--out", rp, "--scratch", os.path.join(outdir, "scratch-%s-%d" % (tag, attempt)),
               "--shared", shared, "--from", str(a), "--to", str(b)] + ([] if race else ["--l2out", lp]) + (extra or [])
        rc, out = vlib.sh("%s 2>%s" % (" ".join(cmd), ep), timeout=timeout, env=env)
        rounds.append(rp)
        if not race and os.path.exists(lp):
            l2s.append(lp)
        if "stopped after a hang" in out:
            hang = True
            break
        if rc == 0:
            try:
                os.remove(ep)
            except OSError:
                pass
            break
        # the process died: why?  (the runtime's message is followed by a dump of every goroutine, interleaved with log output)
        err = ""
        try:
            with open(ep, "rb") as f:
                pos, off, keep = -1, 0, b""
                while True:
                    blk = f.read(1 << 20)
                    if not blk:
                        break
                    mm = re.search(rb"^(?:fatal error:|panic: |SIGSEGV|\[signal )", keep + blk, re.M)
                    if mm:
                        pos = off - len(keep) + mm.start()
                        break
                    keep = blk[-16:]
                    off += len(blk)
                if pos < 0:
                    f.seek(0, 2)
                    pos = max(0, f.tell() - (2 << 20))
                f.seek(pos)
                err = f.read(12 << 20).decode("utf-8", "replace")
        except OSError:
            pass
        crash = parse_crash(err)
        last = a - 1
        if os.path.exists(rp):
            for l in open(rp):
                try:
                    last = max(last, json.loads(l).get("s", last))
                except ValueError:
                    pass                       # a torn last line
        if crash is None:
            raise vlib.Inconclusive("concdrv died (rc=%s) in sessions %d..%d without a recognisable runtime error:\n%s" % (rc, a, b, err[:3000]))
        crash["s"] = max(last, a)
        crashes.append(crash)
        a = max(last, a) + 1
        attempt += 1
        if attempt >= 6:
            break                              # six dead processes in one shard are evidence enough
    return rounds, l2s, crashes, hang


def run_sessions(ctx, binp, sessions, outdir, race, shards, extra=None, timeout=900):
    os.makedirs(outdir, exist_ok=True)
    sp = os.path.join(outdir, "script.json")
    json.dump({"sessions": sessions}, open(sp, "w"))
    n = len(sessions)
    shards = max(1, min(shards, n))
    per = (n + shards - 1) // shards
    parts = [(i * per, min(n, (i + 1) * per)) for i in range(shards) if i * per < n]
    with cf.ThreadPoolExecutor(max_workers=len(parts)) as ex:
        res = list(ex.map(lambda ab: run_shard(binp, sp, ab[0], ab[1], outdir, "%03d" % ab[0], race, extra, timeout), parts))
    rounds, l2s, crashes, hang = [], [], [], False
    for r, l, c, h in res:
        rounds += r
        l2s += l
        crashes += c
        hang = hang or h
    races = []
    for fn in sorted(os.listdir(outdir)):
        if fn.startswith("race-"):
            races += parse_race_log(open(os.path.join(outdir, fn), errors="replace").read())
    # distinct across shards
    seen, uniq = set(), []
    for r in races:
        if r["key"] not in seen:
            seen.add(r["key"])
            uniq.append(r)
    return rounds, l2s, crashes, uniq, hang


def run_rv(ctx, binp, outdir, race, nrounds):
    os.makedirs(outdir, exist_ok=True)
    tag = "race" if race else "plain"
    rp = os.path.join(outdir, "rv-%s.ndjson" % tag)
    env = dict(os.environ, GOTRACEBACK="all", GORACE="log_path=%s halt_on_error=0 exitcode=0" % os.path.join(outdir, "rvrace-%s" % tag))
    rc, out = vlib.sh("%s rv --rounds %d --seed %d --out %s --scratch %s 2>%s" % (binp, nrounds, ctx.seed, rp, os.path.join(outdir, "rvs-" + tag),
                                                                                  os.path.join(outdir, "rv-stderr-%s.log" % tag)), timeout=600, env=env)
    if rc != 0:
        raise vlib.Inconclusive("rendezvous driver failed rc=%s: %s" % (rc, out[-1500:]))
    races = []
    for fn in sorted(os.listdir(outdir)):
        if fn.startswith("rvrace-" + tag):
            races += parse_race_log(open(os.path.join(outdir, fn), errors="replace").read())
    return rp, races


# ----------------------------------------------------------------------------------------------- statistics (vacuity guard)

def round_stats(recs):
    st = {"rounds": 0, "requests": 0, "sessions": 0, "boot_errors": 0, "kinds_concurrent": {k: 0 for k in KINDS}, "gmp": {}, "goroutines": {},
          "locked_requests": 0, "waited_for_lock": 0, "unlocked_requests": 0, "equiv_checked": 0, "equiv_full": 0, "equiv_determined": 0, "equiv_allocation_choice_differs": 0,
          "equiv_same": 0, "equiv_diff": 0, "control_runs": 0, "bulk_rounds": 0, "hangs": 0, "panics": 0, "errors": 0, "lock_orders": set(),
          "observed_nolock_kinds": set(), "observed_preaccess_kinds": set(), "accesses": 0, "accesses_outside_lock": 0}
    for e in recs:
        if e["ev"] == "session":
            st["sessions"] += 1
            st["boot_errors"] += 1 if "booterr" in e else 0
            continue
        if e["ev"] != "round":
            continue
        st["rounds"] += 1
        st["gmp"][str(e["gmp"])] = st["gmp"].get(str(e["gmp"]), 0) + 1
        st["goroutines"][str(e["ngo"])] = st["goroutines"].get(str(e["ngo"]), 0) + 1
        st["bulk_rounds"] += 1 if e.get("bulk") else 0
        st["hangs"] += 1 if e.get("hang") else 0
        cs = {}       # lock seq -> (unlock seq, q)
        for q in e["reqs"]:
            ls = [x for x in q["ev"] if x["e"] == "lock"]
            us = [x for x in q["ev"] if x["e"] == "unlock"]
            for x, y in zip(ls, us):
                cs[x["seq"]] = (y["seq"], q["q"])
        gs = {q["g"] for q in e["reqs"]}
        order = []
        for q in e["reqs"]:
            st["requests"] += 1
            st["panics"] += 1 if q["panic"] else 0
            st["errors"] += 1 if q["err"] else 0
            if len(gs) > 1:
                st["kinds_concurrent"][q["kind"]] = st["kinds_concurrent"].get(q["kind"], 0) + 1
            acc = [x for x in q["ev"] if x["e"] == "acc"]
            st["accesses"] += len(acc)
            free = [x for x in acc if not x["h"]]
            st["accesses_outside_lock"] += len(free)
            locks = [x for x in q["ev"] if x["e"] == "lock"]
            if locks:
                st["locked_requests"] += 1
                order.append((locks[0]["seq"], q["kind"]))
                b = q["ev"][0]["b"]
                if b in cs and cs[b][1] != q["q"]:
                    st["waited_for_lock"] += 1        # the lock was held by another request when this one started
                if free:
                    st["observed_preaccess_kinds"].add(q["kind"])
            else:
                st["unlocked_requests"] += 1
                if acc:
                    st["observed_nolock_kinds"].add(q["kind"])
        st["lock_orders"].add(" ".join(k for _, k in sorted(order)))
        eq = e.get("equiv") or {}
        if eq.get("checked"):
            st["equiv_checked"] += 1
            st["equiv_" + eq["level"]] += 1
            if eq["same_full"]:
                st["equiv_same"] += 1
            elif eq["same_det"]:
                st["equiv_allocation_choice_differs"] += 1
            else:
                st["equiv_diff"] += 1
            st["control_runs"] += eq.get("nctl", 0)
    st["distinct_lock_orders"] = len(st.pop("lock_orders"))
    st["observed_nolock_kinds"] = sorted(st["observed_nolock_kinds"])
    st["observed_preaccess_kinds"] = sorted(st["observed_preaccess_kinds"])
    return st


def split_lines(paths, nchunks, outdir, prefix):
    lines = []
    for p in paths:
        if isinstance(p, str):
            for l in open(p).read().splitlines():
                try:
                    json.loads(l)
                    lines.append(l)
                except ValueError:
                    pass                       # the torn last line of a process that was killed
        else:
            lines += [json.dumps(r, separators=(",", ":"), sort_keys=True) for r in p]
    per = max(1, (len(lines) + nchunks - 1) // nchunks)
    files = []
    for i in range(0, len(lines), per):
        fp = os.path.join(outdir, "%s%03d.ndjson" % (prefix, i // per))
        open(fp, "w").write("\n".join(lines[i:i + per]) + "\n")
        files.append(fp)
    return files, len(lines)


# ----------------------------------------------------------------------------------------------- the check

def l2_owner_known(kfs, v):
    for owner in L2_OWNERS:
        if v["pred"] in l2eng.PREDS[owner] and vlib.match_kf(kfs, owner, v):
            return owner
    return None


def run(ctx):
    q = ctx.quick
    t0 = time.time()
    # builds and design check side by side
    with cf.ThreadPoolExecutor(max_workers=3) as ex:
        f_plain = ex.submit(vlib.build_harness, False, "verif", "concdrv")
        f_race = ex.submit(vlib.build_harness, True, "verif", "concdrv")
        f_mc = ex.submit(design_check, ctx)
        binp, binr = f_plain.result(), f_race.result()
        mc, mcsum = f_mc.result()
    t_build = time.time() - t0

    if ctx.replay:
        rp = json.load(open(ctx.replay))
        sessions = rp["replay"]["sessions"]
        nrv = 60
    else:
        ns, nsr, nrounds, nrv = (52, 14, 5, 240) if q else (700, 120, 5, 1200)
        sessions = gen_sessions(ctx, binp, ns, nrounds)
        sessions_r = gen_sessions(ctx, binp, nsr, nrounds, salt=7)
    if ctx.replay:
        sessions_r = sessions

    # the real code: without and with the race detector, plus the rendezvous, all at once
    t1 = time.time()
    with cf.ThreadPoolExecutor(max_workers=4) as ex:
        f1 = ex.submit(run_sessions, ctx, binp, sessions, ctx.path("plain", "x")[:-2], False, 10 if q else 14, None, 600 if q else 3000)
        f2 = ex.submit(run_sessions, ctx, binr, sessions_r, ctx.path("race", "x")[:-2], True, 6 if q else 10, None, 600 if q else 3000)
        f3 = ex.submit(run_rv, ctx, binp, ctx.path("rv", "x")[:-2], False, nrv)
        f4 = ex.submit(run_rv, ctx, binr, ctx.path("rv", "x")[:-2], True, nrv)
        rounds_p, l2s, crashes_p, races_p, hang_p = f1.result()
        rounds_r, _, crashes_r, races_r, hang_r = f2.result()
        rv_p, rvraces_p = f3.result()
        rv_r, rvraces_r = f4.result()
    t_run = time.time() - t1

    # trace validation ---------------------------------------------------------------------------
    t2 = time.time()
    extra = crashes_p + crashes_r + races_p + races_r + rvraces_p + rvraces_r
    files, nlines = split_lines(rounds_p + rounds_r + [rv_p, rv_r, extra], 8 if q else 32, ctx.out, "ser-chunk")
    l2files, l2lines = split_l2(l2s, 12 if q else 32, ctx.out)
    with cf.ThreadPoolExecutor(max_workers=2) as ex:
        fa = ex.submit(validate_chunks, "Trace_Serialize", "Trace_Serialize.cfg", files, ctx.out, 900 if q else 3000)
        fb = ex.submit(validate_chunks, "Trace_L2", "Trace_L2.cfg", l2files, ctx.out, 900 if q else 3000)
        res_a, res_b = fa.result(), fb.result()
    viols, consumed = [], 0
    for fp, r in list(zip(files, res_a)) + list(zip(l2files, res_b)):
        if r["consumed"] is None or r["consumed"] != r["total"]:
            raise vlib.Inconclusive("trace validation did not consume %s (%s of %s): %s\n%s" % (
                fp, r["consumed"], r["total"], r["res"]["error"], r["res"]["out"][-3000:]))
        consumed += r["consumed"]
        for v in r["viols"]:
            v["chunk"] = os.path.basename(fp)
            viols.append(v)
    t_tv = time.time() - t2

    recs_p = [e for p in rounds_p for e in read_lines(p)]
    recs_r = [e for p in rounds_r for e in read_lines(p)]
    rv_recs = read_lines(rv_p) + read_lines(rv_r)

    # which rounds are fully equivalent / tainted (TLC's Info_Tainted), to place the L2 violations
    tainted = {}
    for v in viols:
        if v["pred"] == "Info_Tainted":
            tainted[v["s"]] = min(tainted.get(v["s"], 1 << 30), v["r"])
    bounds, full_eq = {}, set()
    for e in recs_p:
        if e["ev"] == "round" and "order" in e:
            b = bounds.setdefault(e["s"], [])
            b.append((b[-1][0] if b else 0) + len(e["order"]))
            b[-1] = (b[-1], e["r"])
            eqv = e.get("equiv") or {}
            if eqv.get("checked") and eqv.get("level") == "full" and eqv.get("same_full"):
                full_eq.add((e["s"], e["r"]))
    for s in bounds:
        bounds[s] = [(x if isinstance(x, tuple) else (x, -1)) for x in bounds[s]]

    def round_of(s, k):
        for end, r in bounds.get(s, []):
            if k < end:
                return r
        return None

    real_div = set()
    for e in recs_p:
        eqv = e.get("equiv") or {} if e["ev"] == "round" else {}
        if eqv.get("checked") and not eqv.get("same_det") and eqv.get("ctl_agree") is True and not eqv.get("ctl_explains"):
            real_div.add((e["s"], e["r"]))
    kfs = vlib.load_known_findings()
    BASE = 1000000       # history index offset of the sequential baselines (concdrv)
    # pass 1: the classes of invariant violations that SEQUENTIAL processing shows in this run (a fully equivalent round, or
    # the sequential baseline of a round that is compared on the coarse projection only)
    seq_classes = set()
    for v in viols:
        if v["pred"] in L2_PREDS:
            if v["h"] >= BASE or (v["h"], round_of(v["h"], v.get("k", -1))) in full_eq:
                seq_classes.add((v["pred"], v["sig"]))
    mine, info, l2_inherited, l2_conseq, l2_known, l2_undet = [], {}, 0, 0, {}, 0
    for v in viols:
        if v["pred"] in PREDS:
            mine.append(v)
        elif v["pred"].startswith("Info_"):
            info[v["pred"]] = info.get(v["pred"], 0) + 1
        elif v["pred"] in L2_PREDS:
            if v["h"] >= BASE:
                continue
            s, r = v["h"], round_of(v["h"], v.get("k", -1))
            if r is None or tainted.get(s, 1 << 30) <= r:
                l2_conseq += 1              # after a request worked outside the lock during a critical section: consequence
            elif (s, r) in full_eq:
                l2_inherited += 1           # the sequential replay reaches the very same state: not a matter of concurrency
            elif l2_owner_known(kfs, v):
                owner = l2_owner_known(kfs, v)
                l2_known[owner] = l2_known.get(owner, 0) + 1
            elif (s, r) not in real_div and (v["pred"], v["sig"]) in seq_classes:
                l2_undet += 1               # no exact sequential counterpart of this round, but sequential runs break it the same way
            else:
                mine.append(dict(v, s=s, r=r, sig="after-concurrent-round:" + v["sig"]))

    # vacuity guard -------------------------------------------------------------------------------
    sp, sr = round_stats(recs_p), round_stats(recs_r)
    problems = []
    if not ctx.replay:
        need_rounds = 200 if q else 3000
        if sp["rounds"] + sr["rounds"] < need_rounds:
            problems.append("only %d rounds ran (need %d)" % (sp["rounds"] + sr["rounds"], need_rounds))
        for k in KINDS:
            if sp["kinds_concurrent"].get(k, 0) == 0:
                problems.append("handler kind %s never ran concurrently with others" % k)
            if sr["kinds_concurrent"].get(k, 0) == 0:
                problems.append("handler kind %s never ran concurrently with others in the race-detector build" % k)
        if sp["waited_for_lock"] == 0:
            problems.append("no lock contention observed (no request started while another one held the lock)")
        if sp["equiv_checked"] < (100 if q else 1500) or sp["equiv_full"] == 0:
            problems.append("sequential equivalence compared on %d rounds only" % sp["equiv_checked"])
        if sr["rounds"] == 0 or not all(e.get("race") for e in recs_r if e["ev"] == "round"):
            problems.append("the race-detector build did not run")
        if not all(str(g) in sp["gmp"] for g in (1, 2, 16)):
            problems.append("GOMAXPROCS values exercised: %s" % sp["gmp"])
        nrvp = sum(1 for e in rv_recs if not e["race"])
        nrvr = sum(1 for e in rv_recs if e["race"])
        if nrvp < 200 or nrvr < 200:
            problems.append("rendezvous rounds: %d / %d (need 200 each)" % (nrvp, nrvr))
        modes = {(e["mode"], e["gmp"] == 1) for e in rv_recs}
        for m in ("before", "later", "closed-empty", "nil-channel"):
            if (m, True) not in modes or (m, False) not in modes:
                problems.append("rendezvous mode %s not exercised with GOMAXPROCS=1 and >1" % m)
        if sp["boot_errors"] + sr["boot_errors"] > (sp["sessions"] + sr["sessions"]) // 4:
            problems.append("%d worlds did not boot" % (sp["boot_errors"] + sr["boot_errors"]))
    fresh = [v for v in mine if not vlib.match_kf(kfs, ctx.pid, v)]
    if problems and not (hang_p or hang_r) and not fresh:
        # (a violation found on the way is a verdict whatever the coverage: sessions end at the first divergence, so a broken
        # tree runs fewer rounds)
        raise vlib.Inconclusive("drivers did not exercise what they should: " + "; ".join(problems))

    # model vs. code: which kinds work outside the lock (drift is reported, it is not a verdict)
    model_nolock = set(mcsum["named_deviations"]["NoLockKinds"])
    model_pre = set(mcsum["named_deviations"]["PreAccessKinds"])
    seen_nolock = set(sp["observed_nolock_kinds"]) | set(sr["observed_nolock_kinds"])
    seen_pre = set(sp["observed_preaccess_kinds"]) | set(sr["observed_preaccess_kinds"])
    drift = {"model_says_unlocked_but_code_locks": sorted((model_nolock | model_pre) - (seen_nolock | seen_pre)),
             "code_unlocked_but_model_says_locked": sorted((seen_nolock | seen_pre) - (model_nolock | model_pre))}

    payload = None
    if mine:
        # the sessions of the violating rounds (a replay runs them in both builds; the schedule is the Go scheduler's again)
        pick = []
        for v in mine:
            s_ = v.get("s", -1)
            pool = sessions_r if v.get("race") else sessions
            if isinstance(s_, int) and 0 <= s_ < len(pool) and pool[s_] not in pick:
                pick.append(pool[s_])
        payload = {"sessions": (pick or sessions[:2])[:4]}

    sample = []
    for e in recs_p:
        if e["ev"] == "round":
            r0 = dict(e)
            r0["reqs"] = r0["reqs"][:3]
            r0.pop("order", None)
            sample.append(r0)
            break
    races_all = races_p + races_r + rvraces_p + rvraces_r
    race_pairs = {}
    for r in races_all:
        k = " / ".join(sorted("%s%s" % (s["kind"], "" if s["locked"] else "(outside lock)") for s in r["sides"]))
        race_pairs[k] = race_pairs.get(k, 0) + 1
    cov = {"states": mc["distinct"], "transitions": mc["generated"], "design_depth": mc["depth"],
           "design_config": "Serialize.tla: 3 concurrent requests x 10 handler kinds with the lock programs of today's handlers (safety, deadlock); "
                            "5 kinds (one per program) for termination under WF; rendezvous with 2 readers x 3 delivery outcomes; plus the "
                            "expected-violation runs listed in design_runs",
           "design_runs": mcsum,
           "traces_validated_against_impl": sp["rounds"] + sr["rounds"] + len(rv_recs), "trace_events": consumed,
           "evaluations": sp["requests"] + sr["requests"] + sum(len(e["reads"]) for e in rv_recs),
           "distinct_nontrivial": sp["distinct_lock_orders"] + sr["distinct_lock_orders"],
           "rule": "one evaluation = one request served by the real resource manager while other goroutines issued requests (events checked by "
                   "TLC against Inv_AtMostOne, Inv_Mutex, Act_Terminates, Act_NoPanic; per round Act_SequentialEquivalent against the sequential "
                   "replay in lock order) or one GetPodResources read of the rendezvous; distinct = distinct sequences of handler kinds in "
                   "lock order over the rounds",
           "plain_build": sp, "race_build": sr, "rendezvous_rounds": len(rv_recs),
           "race_reports_distinct": len(races_all), "race_report_pairs": race_pairs, "runtime_crashes": len(crashes_p) + len(crashes_r),
           "l2_lines_validated": l2lines, "l2_violations_inherited_from_sequential": l2_inherited,
           "l2_violations_after_unsynchronized_round": l2_conseq, "l2_violations_known_sequential_findings": l2_known,
           "l2_violations_of_a_class_seen_sequentially": l2_undet,
           "info": info, "model_code_drift": drift,
           "predicates": sorted(PREDS) + ["C01-C05 predicates of Trace_L2 on the serialized history"],
           "timings_s": {"build+design": round(t_build, 1), "run": round(t_run, 1), "trace_validation": round(t_tv, 1)},
           "samples": sample or [{"note": "no round"}], "exhaustive": False}
    return vlib.verdict(ctx, mine, "model_checking", cov,
                        ["TLC and the Json community module",
                         "the Go scheduler chooses the interleavings (GOMAXPROCS 1/2/16, Gosched jitter); TLC does not control them",
                         "cross-request order is taken only from the sequence numbers the shadowing Lock()/Unlock() write under the lock",
                         "accesses = calls of cache.Cache / policy.Policy methods made by the handlers through recording decorators "
                         "(pkg/resmgr/verif_conc.go); direct field accesses are seen by the race detector only",
                         "logging inside the handlers (klog mutex) orders goroutines and hides some races from the race detector",
                         "a race report side counts as made under the lock when its stack passes through the shadowing Unlock() (state "
                         "projection by the harness) or its handler frame is past the handler's m.Lock() line in the current source",
                         "Synchronize re-allocates in map order: rounds containing it are compared on the coarse projection "
                         "(pods, containers, lifecycle states, requests) and end the session"], payload)


def read_lines(p):
    out = []
    for l in open(p):
        try:
            out.append(json.loads(l))
        except ValueError:
            pass
    return out


def split_l2(paths, nchunks, outdir):
    """Concatenate the L2 traces and split at reset lines."""
    hs, cur = [], None
    for p in paths:
        for l in open(p):
            if not l.strip():
                continue
            try:
                json.loads(l)
            except ValueError:
                continue
            if l.startswith('{"ev":"reset"'):
                cur = []
                hs.append(cur)
            if cur is not None:
                cur.append(l if l.endswith("\n") else l + "\n")
    per = max(1, (len(hs) + nchunks - 1) // nchunks)
    files, n = [], 0
    for i in range(0, len(hs), per):
        fp = os.path.join(outdir, "l2-chunk%03d.ndjson" % (i // per))
        with open(fp, "w") as f:
            for h in hs[i:i + per]:
                f.writelines(h)
                n += len(h)
        files.append(fp)
    return files, n
