"""Engine: serialized request processing (C15).

  1. design check: TLC exhaustively on Serialize.tla
       a. the lock protocol of the request handlers AS THEY ARE TODAY (3 concurrent requests of every handler kind):
          Inv_Mutex restricted to the kinds that lock correctly, Inv_AtMostOne, deadlock freedom, termination under weak
          fairness; every handler kind named in the constant UnlockedKinds is a DEVIATION of the code from the
          architecture's rule (take the lock before touching cache/policy): for each of them TLC must find the
          Inv_Mutex counterexample when it is no longer excused (otherwise the model is wrong -> inconclusive)
       b. the pod-resource rendezvous (wait channel created before the fetch goroutine starts): Act_ReadSeesFetch;
          the OLD ordering (channel created inside the goroutine) must violate it
  2. drivers: seeded sessions (world x rounds x 4-8 goroutine programs) -- the Go scheduler decides the interleaving
  3. the REAL resource manager, concurrently (harness/cmd/concdrv, built without and with the race detector)
  4. TLC validates the round records against Trace_Serialize (Inv_AtMostOne, Inv_Mutex, Act_Terminates, Act_NoPanic,
     Act_SequentialEquivalent, Act_ReadSeesFetch) and the serialized histories against Trace_L2 (C01-C05 predicates);
     race-detector reports become `unsynchronized-access` records of the same trace
  5. verdict from real-code traces only
"""
import concurrent.futures as cf
import copy
import json
import os
import random
import re
import shutil
import time

import vlib
from engines import l2 as l2eng
from engines import l2gen
from engines.memalloc import validate_chunks

PROPS = ["C15"]

PREDS = {"Inv_AtMostOne", "Inv_Mutex", "Act_Terminates", "Act_NoPanic", "Act_SequentialEquivalent", "Act_ReadSeesFetch"}
L2_OWNERS = ["C01", "C02", "C03", "C04", "C05"]
L2_PREDS = set().union(*[l2eng.PREDS[p] for p in L2_OWNERS])

KINDS = ["RunPodSandbox", "StopPodSandbox", "RemovePodSandbox", "CreateContainer", "StartContainer", "UpdateContainer",
         "StopContainer", "RemoveContainer", "Synchronize", "Reconfigure"]


# ----------------------------------------------------------------------------------------------- session generator

def gen_session(world, rnd, nrounds, sid):
    """One world, `nrounds` rounds of 4-8 goroutine programs.  Every goroutine drives its OWN pods and containers through
    a consistent lifecycle (any interleaving of the goroutines is a legal request sequence); some goroutines touch shared
    objects: updates of containers that stay alive during the round, reconfiguration, Synchronize (last round only)."""
    pods = {}      # pod -> {"qos", "ctrs": [ids], "stopped": bool}
    ctrs = {}      # ctr -> created | running | stopped
    pod_of = {}
    rounds = []
    policy = world["policy"]
    big = rnd.random() < 0.2
    bulk_last = rnd.random() < 0.55
    for r in range(nrounds):
        bulk = bulk_last and r == nrounds - 1
        clean = (not bulk) and rnd.random() < 0.45     # no handler that works outside the lock today
        k = rnd.randint(4, 8)
        procs = []
        free_pods = [p for p in pods]
        rnd.shuffle(free_pods)
        carried = set()

        def life(g):
            ops = []
            p = "p%d_%d_%d" % (sid, r, g)
            pc = l2gen.pod_class(rnd, policy)
            pods[p] = {"qos": pc["qos"], "ctrs": []}
            ops.append({"op": "RunPod", "pod": p, "pods": pc})
            for j in range(rnd.choice([1, 1, 2])):
                c = "c%d_%d_%d_%d" % (sid, r, g, j)
                spec = l2gen.ctr_class(rnd, pc["qos"], big)
                ops.append({"op": "Create", "pod": p, "c": c, "ctr": spec})
                pods[p]["ctrs"].append(c)
                pod_of[c] = p
                ctrs[c] = "created"
                if rnd.random() < 0.8:
                    ops.append({"op": "Start", "pod": p, "c": c})
                    ctrs[c] = "running"
                if rnd.random() < 0.35:
                    ops.append({"op": "Update", "pod": p, "c": c, "ctr": l2gen.ctr_class(rnd, pc["qos"], big)})
            if rnd.random() < 0.5:
                ops += finish(p, full=not clean and rnd.random() < 0.7)
            return ops

        def finish(p, full):
            ops = []
            for c in pods[p]["ctrs"]:
                if ctrs.get(c) in ("created", "running"):
                    ops.append({"op": "Stop", "pod": p, "c": c})
                    ctrs[c] = "stopped"
            if full:
                ops.append({"op": "StopPod", "pod": p})
            for c in list(pods[p]["ctrs"]):
                if c in ctrs:
                    ops.append({"op": "Remove", "pod": p, "c": c})
                    del ctrs[c]
            if full:
                ops.append({"op": "RemovePod", "pod": p})
                del pods[p]
            else:
                pods[p]["ctrs"] = []
            return ops

        def carry(p):
            ops = []
            for c in pods[p]["ctrs"]:
                if ctrs.get(c) == "created" and rnd.random() < 0.7:
                    ops.append({"op": "Start", "pod": p, "c": c})
                    ctrs[c] = "running"
                if ctrs.get(c) in ("created", "running") and rnd.random() < 0.4:
                    ops.append({"op": "Update", "pod": p, "c": c, "ctr": l2gen.ctr_class(rnd, pods[p]["qos"], big)})
            if rnd.random() < 0.6 or not ops:
                ops += finish(p, full=not clean)
            return ops

        roles = []
        for g in range(k):
            x = rnd.random()
            if bulk:
                roles.append("sync" if g == 0 else rnd.choice(["reconf", "touch", "touch", "sync" if rnd.random() < 0.3 else "touch"]))
            elif x < 0.45 or not pods:
                roles.append("life")
            elif x < 0.70:
                roles.append("carry")
            elif x < 0.88:
                roles.append("touch")
            else:
                roles.append("reconf")
        # the pods whose lifecycle moves on in this round
        for g, role in enumerate(roles):
            if role == "carry":
                cand = [p for p in free_pods if p not in carried]
                if cand:
                    carried.add(cand[0])
                    roles[g] = ("carry", cand[0])
                else:
                    roles[g] = "life"
        # containers that stay alive during the whole round: nobody changes their lifecycle
        stable = [c for c, s in ctrs.items() if s in ("created", "running") and pod_of[c] not in carried]
        snapshot_pods = sorted(pods)
        snapshot_ctrs = {c: s for c, s in ctrs.items()}
        for g, role in enumerate(roles):
            if isinstance(role, tuple):
                procs.append(carry(role[1]))
            elif role == "life":
                procs.append(life(g))
            elif role == "touch":
                ops = []
                for _ in range(rnd.randint(1, 3)):
                    if stable:
                        c = rnd.choice(stable)
                        ops.append({"op": "Update", "pod": pod_of[c], "c": c,
                                    "ctr": l2gen.ctr_class(rnd, pods[pod_of[c]]["qos"], big), "tag": "shared"})
                    else:
                        ops.append({"op": "Reconfigure", "config": world["config"]})
                procs.append(ops)
            elif role == "reconf":
                procs.append([{"op": "Reconfigure", "config": reconf_variant(world, rnd)} for _ in range(rnd.randint(1, 2))])
            elif role == "sync":
                procs.append([{"op": "Sync", "pods_list": snapshot_pods, "ctrs": snapshot_ctrs}])
        rounds.append({"gmp": rnd.choice([1, 2, 16]), "seed": rnd.randrange(1 << 30), "procs": procs, "bulk": bulk})
    return {"world": world, "rounds": rounds}


def reconf_variant(world, rnd):
    cfg = copy.deepcopy(world["config"])
    if rnd.random() < 0.35:
        if world["policy"] == "ta":
            cfg["preferSharedCPUs"] = not cfg.get("preferSharedCPUs", False)
        else:
            cfg["reservedPoolNamespaces"] = [] if cfg.get("reservedPoolNamespaces") else ["rsv-x"]
    return cfg


def gen_sessions(ctx, binp, nsessions, nrounds, salt=0):
    rnd = random.Random(ctx.seed * 104729 + 15 + salt)
    ms = l2gen.machines(binp)
    worlds = l2gen.ta_worlds(ms, rnd, (nsessions + 1) // 2) + l2gen.balloons_worlds(ms, rnd, nsessions // 2)
    rnd.shuffle(worlds)
    return [gen_session(w, rnd, nrounds, i) for i, w in enumerate(worlds[:nsessions])]


# ----------------------------------------------------------------------------------------------- race reports

_HANDLER = re.compile(r"pkg/resmgr\.\(\*nriPlugin\)\.(Synchronize|RunPodSandbox|StopPodSandbox|RemovePodSandbox|CreateContainer|"
                      r"StartContainer|UpdateContainer|StopContainer|RemoveContainer)((?:\.\w+)*)$")
_RECONF = re.compile(r"pkg/resmgr\.\(\*resmgr\)\.(reconfigure|updateConfig)((?:\.\w+)*)$")
_FETCH = re.compile(r"pkg/resmgr/cache\.\(\*pod\)\.goFetchPodResources\.func\d+")
_LOCKFRAME = re.compile(r"pkg/resmgr\.\(\*resmgr\)\.(Lock|Unlock)$")

_src_cache = {}


def _source_path(path):
    ov = os.environ.get("VERIF_OVERLAY")
    if ov:
        try:
            rep = json.load(open(ov)).get("Replace", {})
            if path in rep and rep[path]:
                return rep[path]
        except (OSError, ValueError):
            pass
    return path


def _functions(path):
    """name -> (first line, last line, line of the first exclusive m.Lock() or None) for every method/function of a Go file."""
    if path in _src_cache:
        return _src_cache[path]
    tab = {}
    try:
        lines = open(_source_path(path)).read().split("\n")
    except OSError:
        lines = []
    cur, start, lock = None, 0, None
    for i, ln in enumerate(lines, 1):
        m = re.match(r"func (?:\([^)]*\) )?(\w+)\(", ln)
        if m and cur is None:
            cur, start, lock = m.group(1), i, None
        elif cur is not None:
            if lock is None and re.search(r"(?<![A-Za-z])m\.Lock\(\)", ln) and not ln.strip().startswith("//"):
                lock = i
            if ln == "}":
                tab[cur] = (start, i, lock)
                cur = None
    _src_cache[path] = tab
    return tab


def classify_side(frames):
    """frames: [(function, file, line)] innermost first.  Returns {kind, locked, at}: the request handler the access
    belongs to and whether it can be shown to have been made under the resource manager's lock: the stack passes through
    the shadowing Lock()/Unlock() (the harness' own projection under the lock), or the handler's frame is past the line of
    its m.Lock() in today's source."""
    hs = []
    for fn, fl, ln in frames:
        m = _HANDLER.search(fn)
        if m:
            hs.append((m.group(1), m.group(1), m.group(2), fl, ln))
            continue
        m = _RECONF.search(fn)
        if m:
            hs.append(("Reconfigure", m.group(1), m.group(2), fl, ln))
    top = next(("%s:%d" % (os.path.basename(fl), ln) for fn, fl, ln in frames if "/src/runtime/" not in fl and "/src/internal/" not in fl), "?")
    if any(_FETCH.search(fn) for fn, _, _ in frames):
        return {"kind": "PodResourcesFetch", "locked": False, "at": top}
    if any("concdrv.rendezvous" in fn for fn, _, _ in frames):
        return {"kind": "driver", "locked": True, "at": top}          # the driver stands for a handler that holds the lock
    if not hs:
        outer = next((fn for fn, fl, _ in reversed(frames) if "/src/runtime/" not in fl), "?")
        return {"kind": "background:" + outer.split("/")[-1], "locked": False, "at": top}
    plain = [h for h in hs if h[2] == ""]
    kind, fname, _, fl, ln = (plain[-1] if plain else hs[-1])
    locked = any(_LOCKFRAME.search(fn) for fn, _, _ in frames)
    if not locked:
        ent = _functions(fl).get(fname)
        locked = bool(ent and ent[2] and ln > ent[2])
    return {"kind": kind, "locked": locked, "at": top}


_ACCESS = re.compile(r"^(Write|Read|Previous write|Previous read|Atomic \w+|Previous atomic \w+) at 0x[0-9a-f]+ by (?:goroutine \d+|main goroutine):\n((?:  .*\n)+)", re.M)
_FRAME = re.compile(r"^  (\S+)\(\)\n\s+(\S+):(\d+)", re.M)


def parse_race_log(text):
    """Distinct race-detector reports -> records for Trace_Serialize."""
    recs, seen = [], set()
    for rep in text.split("==================\n"):
        if "WARNING: DATA RACE" not in rep:
            continue
        sides = []
        for m in _ACCESS.finditer(rep):
            frames = [(a, b, int(c)) for a, b, c in _FRAME.findall(m.group(2))]
            s = classify_side(frames)
            s["op"] = m.group(1).lower()
            s["frames"] = ["%s %s:%d" % (fn.split("/")[-1], os.path.basename(fl), ln) for fn, fl, ln in frames
                           if "/src/runtime/" not in fl][:4]
            sides.append(s)
        if len(sides) < 2:
            continue
        key = " || ".join(sorted("%s@%s" % (s["kind"], ",".join(s["frames"][:2])) for s in sides))
        if key in seen:
            continue
        seen.add(key)
        recs.append({"ev": "race", "key": key, "sides": sides})
    return recs


_GOR = re.compile(r"^goroutine \d+ [^\n]*:\n((?:.+\n)+)", re.M)
_GFRAME = re.compile(r"^(\S+)\(.*\)\n\t(\S+):(\d+)", re.M)


def parse_crash(text):
    """`fatal error: concurrent map ...` kills the process: the goroutines that are inside a request handler at that moment
    are the sides of the unsynchronized access."""
    m = re.search(r"fatal error: (concurrent map[^\n]*)", text)
    if not m:
        return None
    tail = text[m.start():]
    sides = []
    for g in _GOR.finditer(tail):
        frames = [(a, b, int(c)) for a, b, c in _GFRAME.findall(g.group(1))]
        if not any("pkg/resmgr." in fn or "pkg/resmgr/cache." in fn for fn, _, _ in frames):
            continue
        s = classify_side(frames)
        if s["kind"].startswith("background:"):
            continue
        s["frames"] = ["%s %s:%d" % (fn.split("/")[-1], os.path.basename(fl), ln) for fn, fl, ln in frames if "/src/runtime/" not in fl][:4]
        sides.append(s)
    return {"ev": "crash", "key": m.group(1), "what": m.group(1), "sides": sides}
