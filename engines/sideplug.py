"""Side plugins under C14: event SEQUENCES on one long-lived instance of memory-qos, memtierd and sgx-epc.

(No PROPS line: C14 is owned by engines/l2.py, which calls run_side(ctx) and merges the result.)

  1. design check: TLC exhaustively on SidePlugin (MC_SidePlugin*.cfg, once per plugin = set of handlers), plus the
     reachability of "StartContainer after the class of the container left the configuration" (a cfg that must FAIL)
  2. drivers: TLC -simulate on Sim_SidePlugin prints behaviours of SidePlugin as event sequences over abstract arguments
     (configuration kind + classes, container identity, annotation profile, shape of the optional sub-messages); the
     fuzz layer below turns them into concrete configuration texts, pod annotations and container messages
  3. replay on the REAL handlers: `go test -tags verif -run TestVerifSeq` in the plugin's package (verif_seq_test.go,
     one plugin instance per sequence, recover + watchdog around every call, calibration after every accepted
     Configure, probes after every request that was not served and at the end of every sequence; onClose runs in a
     child process because it ends the process)
  4. TLC validates the traces against Trace_SidePlugin: Act_NoPanic, Act_Returns, Act_StillServing
  5. vacuity guards on what the traces exercised (counted by TLC in the state the events arrived in)
"""
import concurrent.futures as cf
import json
import os
import random
import re
import shutil
import time

import vlib

PREDS = {"Act_NoPanic", "Act_Returns", "Act_StillServing"}

CTRS = ["c1", "c2", "c3", "c4", "c5"]
ALL_RES = ["full", "nolimit", "nomem", "nores", "nolinux"]
QOS_ANN = ["none", "class", "class+par", "class+fuzzpar", "par", "unknowncls", "emptycls", "fuzzcls", "fuzzpar"]
ALL_CFG = ["valid", "nocfg", "noclasses", "extra", "malformed", "huge"]
PLUGINS = {
    "memtierd": {"pkg": "cmd/plugins/memtierd", "classes": ["a", "b", "c"], "cfgkinds": ALL_CFG, "annkinds": QOS_ANN,
                 "weights": (14, 38, 27, 20, 1), "sfx": ".memtierd.nri.io", "depth": 24,
                 "handlers": ["Configure", "Create", "Start", "Stop", "Close"]},
    "memqos": {"pkg": "cmd/plugins/memory-qos", "classes": ["a", "b", "c"], "cfgkinds": ALL_CFG, "annkinds": QOS_ANN,
               "weights": (22, 76, 0, 0, 2), "sfx": ".memory-qos.nri.io", "depth": 20,
               "handlers": ["Configure", "Create", "Close"]},
    "epc": {"pkg": "cmd/plugins/sgx-epc", "classes": [], "cfgkinds": [], "annkinds": ["none", "par", "fuzzpar"],
            "weights": (0, 100, 0, 0, 0), "sfx": "", "depth": 12, "handlers": ["Create"]},
}
# sequences per plugin: (quick, thorough)
NSEQ = {"memtierd": (260, 3600), "memqos": (160, 2000), "epc": (60, 600)}

# what the traces must have exercised (tokens counted by Trace_SidePlugin), per plugin
NEED = {
    "memtierd": ["Configure:ok", "Configure:refused", "Configure:reconfigure:ok", "Configure:reconfigure:refused", "Configure:removes-class",
                 "Configure:adds-class", "Configure:to-no-classes", "Configure:after-rejected", "Configure:nocfg:ok",
                 "Configure:malformed:refused", "Configure:huge:ok", "Configure:extra:ok", "Configure:noclasses:ok",
                 "Create:ok", "Create:refused", "Create:told-before", "Create:phase-started", "Create:unconfigured-plugin",
                 "Create:cls-configured", "Create:cls-not-configured", "Create:cls-unconfigured-plugin", "Create:fuzzcls", "Create:fuzzpar",
                 "Create:emptycls", "Create:unknowncls",
                 "Start:ok", "Start:refused", "Start:never-told", "Start:phase-unknown", "Start:phase-started", "Start:phase-stopped",
                 "Start:class-removed", "Start:class-removed:refused", "Start:cls-not-configured", "Start:cls-unconfigured-plugin",
                 "Start:unconfigured-plugin", "Start:fuzzcls",
                 "Stop:ok", "Stop:never-told", "Stop:phase-unknown", "Stop:phase-stopped", "Stop:phase-created", "Stop:class-removed",
                 "Close:ok", "Calib:configured:ok", "Calib:not-configured:refused",
                 "Probe:served-after-refusal", "Probe:probe:class:ok", "Probe:probe:benign:ok", "Probe:final:benign:ok",
                 "Probe:after-Configure:ok", "Probe:after-Create:ok", "Probe:after-Start:ok"]
                + ["%s:res-%s" % (e, r) for e in ("Create", "Start", "Stop") for r in ALL_RES],
    "memqos": ["Configure:ok", "Configure:refused", "Configure:reconfigure:ok", "Configure:reconfigure:refused", "Configure:removes-class",
               "Configure:adds-class", "Configure:to-no-classes", "Configure:after-rejected", "Configure:nocfg:ok",
               "Configure:malformed:refused", "Configure:huge:ok", "Configure:extra:ok", "Configure:noclasses:ok",
               "Create:ok", "Create:refused", "Create:told-before", "Create:unconfigured-plugin",
               "Create:cls-configured", "Create:cls-not-configured", "Create:cls-unconfigured-plugin", "Create:fuzzcls", "Create:fuzzpar",
               "Create:emptycls", "Create:unknowncls", "Create:class-removed",
               "Close:ok", "Calib:configured:ok", "Calib:not-configured:refused",
               "Probe:served-after-refusal", "Probe:probe:class:ok", "Probe:probe:benign:ok", "Probe:final:benign:ok",
               "Probe:after-Configure:ok", "Probe:after-Create:ok"]
              + ["Create:res-%s" % r for r in ALL_RES],
    "epc": ["Create:ok", "Create:refused", "Create:told-before", "Create:none", "Create:par", "Create:fuzzpar",
            "Probe:served-after-refusal", "Probe:probe:benign:ok", "Probe:final:benign:ok", "Probe:after-Create:ok"]
           + ["Create:res-%s" % r for r in ALL_RES],
}
MIN_EVENTS = {"memtierd": (3000, 40000), "memqos": (1500, 20000), "epc": (400, 4000)}      # (quick, thorough)


def tla_set(xs):
    return "{" + ", ".join('"%s"' % x for x in xs) + "}"


def constants(plugin, small=None):
    P = PLUGINS[plugin]
    c = {"Plugin": '"%s"' % plugin, "Classes": tla_set(P["classes"]), "Ctrs": tla_set(CTRS), "CfgKinds": tla_set(P["cfgkinds"]),
         "AnnKinds": tla_set(P["annkinds"]), "ResKinds": tla_set(ALL_RES)}
    return c


def write_cfg(path, head, consts, tail=""):
    with open(path, "w") as f:
        f.write(head + "\nCONSTANTS\n" + "".join("  %s = %s\n" % kv for kv in consts.items()) + tail + "CHECK_DEADLOCK FALSE\n")
    return path


# ------------------------------------------------------------------------------------------- design check

def design_check(ctx):
    """MC_SidePlugin(.cfg thorough / _quick.cfg) with Plugin replaced per plugin; the Reach cfg must be violated."""
    base = open(os.path.join(vlib.SPEC, "MC_SidePlugin.cfg" if not ctx.quick else "MC_SidePlugin_quick.cfg")).read()
    jobs = []
    for pl in PLUGINS:
        p = ctx.path("side", "MC_SidePlugin_%s.cfg" % pl)
        open(p, "w").write(base.replace('Plugin = "memtierd"', 'Plugin = "%s"' % pl))
        jobs.append((pl, "MC_SidePlugin", p, 6 if pl == "memtierd" else 2))
    jobs.append(("reach", "MC_SidePlugin", "MC_SidePlugin_Reach.cfg", 2))

    def one(j):
        return j[0], vlib.tlc(j[1], j[2], ctx.path("side", "mc-" + j[0], "x")[:-2], workers=j[3], timeout=900, heap="3g")
    with cf.ThreadPoolExecutor(max_workers=4) as ex:
        res = dict(ex.map(one, jobs))
    for pl in PLUGINS:
        r = res[pl]
        if not r["ok"]:
            raise vlib.Inconclusive("side plugins: design model check (%s) did not pass: violated=%s error=%s\n%s" %
                                    (pl, r["violated"], r["error"], r["out"][-2500:]))
    if res["reach"]["violated"] != "Reach_StartAfterClassRemoved":
        raise vlib.Inconclusive("side plugins: StartContainer after the class was removed is not reachable in SidePlugin:\n%s" %
                                res["reach"]["out"][-2000:])
    return {pl: {"states": res[pl]["distinct"], "transitions": res[pl]["generated"], "depth": res[pl]["depth"],
                 "wall_s": res[pl]["wall_s"]} for pl in PLUGINS}


# ------------------------------------------------------------------------------------------- abstract sequences (TLC)

def simulate(ctx, plugin, num, seed):
    P = PLUGINS[plugin]
    w = P["weights"]
    consts = constants(plugin)
    consts.update({"SimDepth": P["depth"], "WConfigure": w[0], "WCreate": w[1], "WStart": w[2], "WStop": w[3], "WClose": w[4]})
    cfgp = write_cfg(ctx.path("side", "Sim_%s.cfg" % plugin), "SPECIFICATION SimSpec", consts)
    r = vlib.tlc("Sim_SidePlugin", cfgp, ctx.path("side", "sim-" + plugin, "x")[:-2], workers=1, timeout=900,
                 simulate="num=%d" % num, depth=P["depth"] * (len(P["classes"]) + 1) + 4, seed=seed, heap="2g")
    if not r["ok"]:
        raise vlib.Inconclusive("side plugins: driver simulation (%s) failed: %s\n%s" % (plugin, r["error"], r["out"][-2000:]))
    seqs = [h["events"] for h in vlib.tlc_prints(r["out"], "HIST") if h.get("plugin") == plugin]
    if len(seqs) < num * 0.9:
        raise vlib.Inconclusive("side plugins: simulation of %s printed %d of %d sequences" % (plugin, len(seqs), num))
    return [s if isinstance(s, list) else [] for s in seqs][:num]


# ------------------------------------------------------------------------------------------- fuzz layer

HUGE = {"v": "x", "rep": 70000}
FUZZ = ["", " ", "\t", "\n", "null", "~", "true", "false", "0", "-1", "007", "1e3", "0x10", "1.5", "NaN", "inf", "+Inf", "max", "MAX",
        "18446744073709551615", "18446744073709551616", "9223372036854775807", "9223372036854775808", "-9223372036854775809",
        {"v": "9", "rep": 400}, "{", "}", "{}", "[]", "[1,2", "- a\n- b", "a: b", "{\"class\": \"a\"}", "[\"a\"]", "\"a\"", "'a'",
        "a\u0000b", "\u0000", "\ufeff", "\u043a\u043b\u0430\u0441\u0441", "\U0001F600", "a b", " a", "a ", "A", "a/b", "a/../b",
        "../../../etc/passwd", "%s%s%n%d", "%!v(PANIC=", "$(reboot)", "`id`", "a;b", "a\nb: c", "a\r\n", HUGE, {"v": "a,", "rep": 5000},
        {"v": "[", "rep": 3000}, "!!binary x", "&a *a", "*a", "<<: *a", "? :", "%YAML 9.9", "---", "...", "\\", "\\x00", "1 2", "0 ",
        "max\n", "-0", "+1", "1_000", "\u0661\u0662\u0663", "4096k", "1Gi", "1e-3", ".", "-", "--", "/", "//", ":", "a:", ":a", "#", "@", "*"]
FUZZ_PREFIX = ["bogus", "", "class.class", "memory.high.memory.high", "CLASS", "memory", "memory.", ".", "class ", "x/y"]
UNKNOWN_CLS = ["zzz", "no-such-class", "A", "a ", " a", "ab", "a\n", "abc", "a.b", "default"]
PAR_VALID = {"memory.high": ["max", "1073741824", "0", "4096"], "memory.swap.max": ["max", "0", "536870912"], "memory.oom.group": ["1", "0"]}
EPC_VALID = ["65536", "1", "0", "4096", "18446744073709551615"]
NOISE = [("memory-type.resource-policy.nri.io", "dram"), ("io.kubernetes.cri.sandbox-id", "0123456789abcdef"),
         ("prefer-isolated-cpus.resource-policy.nri.io/pod", "true"), ("kubernetes.io/config.seen", "2026-10-03T00:00:00Z")]

# identity of the abstract containers: c5 is a second container (another id) under the pod and name of c1
PODS = {"A": {"id": "pod-0a1b2c3d4e5f-A", "name": "web-0", "ns": "default", "uid": "11111111-aaaa-4bbb-8ccc-000000000001"},
        "B": {"id": "pod-0a1b2c3d4e5f-B", "name": "web-1", "ns": "default", "uid": "11111111-aaaa-4bbb-8ccc-000000000002"},
        "C": {"id": "pod-0a1b2c3d4e5f-C", "name": "dns.cache-x", "ns": "kube-system", "uid": "11111111-aaaa-4bbb-8ccc-000000000003"}}
CTR_ID = {"c1": ("A", "app"), "c2": ("A", "sidecar"), "c3": ("B", "app"), "c4": ("C", "init-1"), "c5": ("A", "app")}


def kv(k, v):
    d = {"k": k, "pre": "", "v": v, "rep": 1} if not isinstance(v, dict) else {"k": k, "pre": v.get("pre", ""), "v": v["v"], "rep": v["rep"]}
    return d


def key_of(plugin, prefix, form, ctr):
    if plugin == "epc":
        base = "epc-limit.nri.io"
        return {"ctr": base + "/container." + ctr, "pod": base + "/pod", "bare": base}[form]
    return prefix + PLUGINS[plugin]["sfx"] + ("/" + ctr if form == "ctr" else "")


def inst_annotations(plugin, a, ctr, rng, other="sidecar2"):
    """Concrete pod annotations for the abstract profile `a` as seen by container `ctr`.
    Returns (form, nilann, [kv...]).  The EFFECTIVE value of every key is the one the profile names: in the form
    "both"/"all" the less specific spellings carry other values (the plugins resolve most-specific-first, C18)."""
    kind, cls = a["kind"], a["cls"]
    ann, nilann = [], False
    if plugin == "epc":
        form = rng.choice(["ctr", "pod", "bare", "all"])
        if kind == "none":
            form = "none"
            nilann = rng.random() < 0.3
        else:
            val = rng.choice(EPC_VALID) if kind == "par" else rng.choice(FUZZ)
            forms = ["ctr", "pod", "bare"] if form == "all" else [form]
            for i, f in enumerate(forms):
                ann.append(kv(key_of(plugin, "", f, ctr), val if i == 0 else rng.choice(EPC_VALID + FUZZ[:20])))
    else:
        form = rng.choice(["pod", "ctr", "both"])
        entries = []        # (prefix, effective value, other value)
        if kind in ("class", "class+par", "class+fuzzpar"):
            entries.append(("class", cls, rng.choice(UNKNOWN_CLS + ["a", "b", "c"])))
        elif kind == "unknowncls":
            entries.append(("class", rng.choice(UNKNOWN_CLS), rng.choice(["a", "b", "c", ""])))
        elif kind == "emptycls":
            entries.append(("class", "", rng.choice(["a", "b", "zzz"])))
        elif kind == "fuzzcls":
            entries.append(("class", rng.choice([f for f in FUZZ if f not in ("", "a", "b", "c")]), rng.choice(["a", "b", "zzz", ""])))
        if kind in ("class+par", "par"):
            for p in rng.sample(sorted(PAR_VALID), rng.randint(1, 3)):
                entries.append((p, rng.choice(PAR_VALID[p]), rng.choice(PAR_VALID[p] + ["junk"])))
        if kind in ("class+fuzzpar", "fuzzpar"):
            for _ in range(rng.randint(1, 3)):
                p = rng.choice(sorted(PAR_VALID) * 3 + FUZZ_PREFIX)
                entries.append((p, rng.choice(FUZZ), rng.choice(["max", "0", "junk"])))
        if kind == "none":
            form = "none"
            nilann = rng.random() < 0.3
        for p, v, o in entries:
            if form in ("ctr", "both"):
                ann.append(kv(key_of(plugin, p, "ctr", ctr), v))
            if form == "pod":
                ann.append(kv(key_of(plugin, p, "pod", ctr), v))
            if form == "both":
                ann.append(kv(key_of(plugin, p, "pod", ctr), o))
    if not nilann and rng.random() < 0.35:
        # noise: other plugins' keys, and this plugin's keys addressed to ANOTHER container (no effect on this one)
        for k, v in rng.sample(NOISE, rng.randint(1, 2)):
            ann.append(kv(k, v))
        if plugin == "epc":
            ann.append(kv("epc-limit.nri.io/container." + other, rng.choice(FUZZ)))
        else:
            ann.append(kv(key_of(plugin, rng.choice(["class", "memory.high"]), "ctr", other), rng.choice(FUZZ)))
    seen, out = set(), []
    for e in ann:
        if e["k"] not in seen:
            seen.add(e["k"])
            out.append(e)
    return form, nilann, out


MEMTIERD_CFG = ("    policy:\n      name: age\n      config: |\n        intervalms: 10000\n        pidwatcher:\n          name: cgroups\n"
                "          config: |\n            cgroups:\n              - $CGROUP2_ABS_PATH\n        swapoutms: 10000\n"
                "    routines:\n      - name: statactions\n        config: |\n          intervalms: 60000\n"
                "          intervalcommand: [\"policy\", \"-dump\", \"accessed\", \"0,1m\"]\n          intervalcommandrunner: memtier\n"
                "          # $MEMTIERD_SWAP_STATS_PATH\n")


def class_yaml(plugin, name, rng, extra=False):
    s = "- name: %s\n" % name
    if plugin == "memtierd":
        sw = rng.choice(["true", "false", None])
        if sw:
            s += "  allowswap: %s\n" % sw
        if rng.random() < 0.65:
            s += "  memtierdconfig: |\n" + MEMTIERD_CFG
    else:
        s += "  swaplimitratio: %s\n" % rng.choice(["0.5", "0.25", "0", "0.0", "1.0", "0.999", "1", "2.5", "-1"])
    if extra:
        s += rng.choice(["  foo: bar\n", "  Name2: x\n", "  nested:\n    deep: [1, 2, {a: b}]\n", "  allowSwap: true\n"])
    return s


def inst_config(plugin, kind, classes, rng, quick=False):
    """Concrete configuration text of the given kind defining (if accepted) the given classes."""
    ua = ""
    if plugin == "memqos":
        ks = rng.sample(sorted(PAR_VALID), rng.randint(0, 3))
        ua = rng.choice(["unifiedannotations: [%s]\n" % ", ".join(ks), "unifiedannotations:\n" + "".join("- %s\n" % k for k in ks) if ks else "", ""])
    body = lambda extra=False: "".join(class_yaml(plugin, c, rng, extra) for c in classes)
    if kind == "nocfg":
        return kv("yaml", "")
    if kind == "valid":
        order = list(classes)
        rng.shuffle(order)
        return kv("yaml", ua + ("classes:\n" + "".join(class_yaml(plugin, c, rng) for c in order) if order else "classes: []\n"))
    if kind == "noclasses":
        return kv("yaml", rng.choice(["{}", "classes: []\n", "classes:\n", "# nothing here\n", "---\n", "other: 1\n", "null", "~",
                                      "classes: null\n", ua or "{}\n", "---\n...\n", "classes: []\nclasses2: [a]\n"]))
    if kind == "extra":
        dup = class_yaml(plugin, rng.choice(classes), rng) if classes else ""
        return kv("yaml", "version: 7\n" + ua + "classes:\n" + body(True) + dup + "trailer: {x: [1, 2, 3]}\n" if classes
                  else "version: 7\n" + ua + "classes: []\ntrailer: {x: [1, 2, 3]}\n")
    if kind == "huge":
        unit = "- name: filler\n  allowswap: true\n" if plugin == "memtierd" else "- name: filler\n  swaplimitratio: 0.5\n"
        if rng.random() < 0.15:      # one very long scalar
            return {"k": "yaml", "pre": ua + "classes:\n" + body() + "- name: ", "v": "y", "rep": 70000 if quick else rng.choice([70000, 300000])}
        return {"k": "yaml", "pre": ua + "classes:\n" + body(), "v": unit, "rep": rng.choice([100, 200, 400] * 6 + [3000] if quick else [200, 400, 1000, 3000] * 6 + [20000])}
    # malformed: not YAML, not the expected shape, wrongly typed fields
    one = classes[0] if classes else "a"
    menu = ["classes: [", "\tclasses: []", "classes: notalist\n", "classes: 5\n", "classes: {name: %s}\n" % one,
            "classes:\n- name: [%s]\n" % one, "classes:\n- 5\n", "classes:\n- - name: %s\n" % one, "- a\n- b\n", "42", "\"str\"", "[]", "[1, 2]",
            "classes:\n- name: %s\n  allowswap: maybe\n" % one, "classes:\n- name: %s\n  swaplimitratio: high\n" % one,
            "classes:\n- name: %s\n  memtierdconfig: {x: 1}\n" % one, "classes:\n- name: {a: b}\n", "unifiedannotations: 7\nclasses: []\n",
            "unifiedannotations: {a: b}\n", "classes:\n- name: %s\n   allowswap: true\n" % one, "classes:\n  - name: %s\n - name: b\n" % one,
            "\u0000", "classes: \"unterminated\n", "classes: 'unterminated\n", "{classes: [}", "classes: [{name: %s]\n" % one, ": :", "a: b: c",
            "classes: *nowhere\n", "x: &a [*a]\n", "%YAML 9.9\n---\nclasses: []\n", "classes: !!binary x\n", "classes: !!set {a}\n",
            "? [a, b]\n: c\n", "classes:\n- name: %s\n  name: %s\n" % (one, one), "classes:\n- name: %s\nclasses:\n- name: b\n" % one,
            "\ufeffclasses: []\n", "classes: []\n\u0000", "<<: {classes: []}\n", "classes: [~, ~]\n", "classes:\n- ~\n", "classes:\n- name: ~\n",
            "classes:\n- name: 5\n", "classes:\n- name: true\n", "classes:\n- name: 1e3\n  allowswap: 1\n", "classes:\n- name: %s\n  swaplimitratio: 1e400\n" % one,
            "classes:\n- name: %s\n  swaplimitratio: .nan\n" % one, "classes:\n- name: %s\n  swaplimitratio: \"0.5\"\n" % one,
            {"k": "yaml", "pre": "classes: ", "v": "[", "rep": 12000}, {"k": "yaml", "pre": "classes: ", "v": "{a: ", "rep": 12000},
            {"k": "yaml", "pre": "", "v": "a: &a [x, x, x, x, x, x, x, x]\nb: &b [*a, *a, *a, *a, *a, *a, *a, *a]\nc: &c [*b, *b, *b, *b, *b, *b, *b, *b]\n"
                                      "d: &d [*c, *c, *c, *c, *c, *c, *c, *c]\nclasses: [*d, *d, *d, *d, *d, *d, *d, *d]\n", "rep": 1},
            {"k": "yaml", "pre": "classes:\n- name: ", "v": "\"", "rep": 3}]
    m = rng.choice(menu)
    return m if isinstance(m, dict) else kv("yaml", m)


def concretize(plugin, abstract_seqs, seed, quick=False):
    """Abstract TLC sequences -> driver sequences.  A container that was described by a CreateContainer event is
    described the same way (same pod annotations, same sub-messages) by the StartContainer/StopContainer that follow."""
    rng = random.Random(seed * 1000003 + sum(map(ord, plugin)))
    out = []
    for si, evs in enumerate(abstract_seqs):
        told = {}
        seq = {"s": si + 1, "trace": si % 2 == 0, "bin": plugin == "memtierd" and si % 3 != 2, "verbose": plugin == "epc" and si % 2 == 1,
               "events": []}
        for e in evs:
            if e["ev"] == "Configure":
                cls = sorted(e["classes"]) if isinstance(e["classes"], list) else []
                seq["events"].append({"ev": "Configure", "kind": e["kind"], "classes": cls, "yaml": inst_config(plugin, e["kind"], cls, rng, quick)})
            elif e["ev"] == "Close":
                seq["events"].append({"ev": "Close"})
            else:
                c = e["c"]
                if e["ev"] != "Create" and c in told:
                    conc = told[c]
                else:
                    podk, name = CTR_ID[c]
                    form, nilann, ann = inst_annotations(plugin, e["a"], name, rng)
                    pod = dict(PODS[podk], nilann=nilann, nolinux=rng.random() < 0.15, ann=ann)
                    conc = {"form": form, "pod": pod, "ctr": {"id": "ctr-5e5e%s-0a1b2c3d4e5f60718293a4b5c6d7e8f9-%s" % (podk, c), "name": name}}
                    if e["ev"] == "Create":
                        told[c] = conc
                seq["events"].append({"ev": e["ev"], "c": c, "a": e["a"], "r": e["r"], "form": conc["form"], "pod": conc["pod"], "ctr": conc["ctr"]})
        out.append(seq)
    return out


# ------------------------------------------------------------------------------------------- replay on the real code

def run_driver(ctx, plugin, seqs, tag=""):
    drvp = ctx.path("side", "driver-%s%s.json" % (plugin, tag))
    tp = ctx.path("side", "trace-%s%s.ndjson" % (plugin, tag))
    json.dump({"plugin": plugin, "classes": PLUGINS[plugin]["classes"], "seqs": seqs}, open(drvp, "w"))
    t0 = time.time()
    tmpd = ctx.path("side", "tmp-%s%s" % (plugin, tag), "x")[:-2]       # scratch of the Go tool and of the driver: not /tmp
    rc, out = vlib.go_test_pkg(PLUGINS[plugin]["pkg"], "^TestVerifSeq$",
                               env_extra={"VERIF_SEQ_DRIVER": drvp, "VERIF_SEQ_TRACE": tp, "TMPDIR": tmpd}, timeout=900 if ctx.quick else 3000)
    shutil.rmtree(tmpd, ignore_errors=True)
    hang = os.path.exists(tp) and '"out":"hang"' in open(tp).read()[-3000:]
    if rc != 0 and not hang:
        raise vlib.Inconclusive("side plugins: driver for %s failed rc=%d:\n%s" % (plugin, rc, out[-3000:]))
    if "no tests to run" in out or not os.path.exists(tp):
        raise vlib.Inconclusive("side plugins: driver for %s did not run:\n%s" % (plugin, out[-2000:]))
    if not os.environ.get("VERIF_SIDE_KEEP"):
        os.remove(drvp)
    return tp, round(time.time() - t0, 1), hang


def split(tp, nchunks, prefix):
    lines = [l for l in open(tp).read().splitlines() if l.strip()]
    starts = [i for i, l in enumerate(lines) if '"ev":"reset"' in l] + [len(lines)]
    nh = len(starts) - 1
    per = max(1, (nh + nchunks - 1) // nchunks)
    files = []
    for c in range(0, nh, per):
        fp = "%s-chunk%03d.ndjson" % (prefix, c // per)
        open(fp, "w").write("\n".join(lines[starts[c]:starts[min(c + per, nh)]]) + "\n")
        files.append(fp)
    return files, lines


def trace_stats(lines):
    st = {"sequences": 0, "events": 0, "by_handler": {}, "outcomes": {}, "memtierd_launched": 0, "memtierd_stopped": 0,
          "close_in_child": 0, "calibrations": 0, "probes": 0}
    prev = 0
    ends_ok = True
    last = None
    for l in lines:
        e = json.loads(l)
        if e["ev"] == "reset":
            if last is not None and not (last["ev"] in ("Probe", "Close") or last["out"] == "hang"):
                ends_ok = False
            st["sequences"] += 1
            prev, last = 0, None
            continue
        last = e
        st["events"] += 1
        h = st["by_handler"].setdefault(e["ev"], {"ok": 0, "refused": 0, "panic": 0, "hang": 0})
        h[e["out"]] += 1
        st["outcomes"][e["out"]] = st["outcomes"].get(e["out"], 0) + 1
        if e["ev"] == "Calib":
            st["calibrations"] += 1
        if e["ev"] == "Probe":
            st["probes"] += 1
        if e["ev"] == "Close":
            st["close_in_child"] += 1
        if e["ev"] == "Start" and e["st"] > prev:
            st["memtierd_launched"] += 1
        if e["ev"] == "Stop" and e["st"] < prev:
            st["memtierd_stopped"] += 1
        prev = e["st"]
    if last is not None and not (last["ev"] in ("Probe", "Close") or last["out"] == "hang"):
        ends_ok = False
    st["sequences_end_with_probes_or_close"] = ends_ok
    return st


def validate(ctx, plugin, tp, tag=""):
    cfgp = write_cfg(ctx.path("side", "Trace_%s.cfg" % plugin), "SPECIFICATION TraceSpec", constants(plugin))
    files, lines = split(tp, 4 if ctx.quick else 12, ctx.path("side", "tv-%s%s" % (plugin, tag)))

    def one(fp):
        return vlib.validate_trace("Trace_SidePlugin", cfgp, fp, fp[:-7] + "-meta", timeout=900 if ctx.quick else 3000, heap="2g")
    with cf.ThreadPoolExecutor(max_workers=min(len(files), 6)) as ex:
        results = list(ex.map(one, files))
    viols, consumed, cover = [], 0, {}
    for fp, r in zip(files, results):
        if r["consumed"] is None or r["consumed"] != r["total"]:
            raise vlib.Inconclusive("side plugins: trace validation did not consume %s (%s of %s): %s\n%s" % (
                fp, r["consumed"], r["total"], r["res"]["error"], r["res"]["out"][-2500:]))
        consumed += r["consumed"]
        viols += r["viols"]
        for c in vlib.tlc_prints(r["res"]["out"], "COVER"):
            if isinstance(c, dict):
                for k, n in c.items():
                    cover[k] = cover.get(k, 0) + n
        os.remove(fp)
    bad = [v for v in viols if v["pred"] not in PREDS]
    if bad:
        raise vlib.Inconclusive("side plugins: the trace of %s is not a behaviour of SidePlugin / driver discipline broken: %s" % (plugin, bad[:3]))
    return viols, consumed, cover, lines


def by_seq(lines):
    seqs = {}
    for l in lines:
        e = json.loads(l)
        seqs.setdefault(e["s"], []).append(e)
    return seqs


def run_plugin(ctx, plugin, replay=None):
    t0 = time.time()
    if replay is not None:
        seqs = replay
        sim_wall = 0
    else:
        n = NSEQ[plugin][0 if ctx.quick else 1]
        abstract = simulate(ctx, plugin, n, ctx.seed * 31 + len(plugin))
        sim_wall = round(time.time() - t0, 1)
        seqs = concretize(plugin, abstract, ctx.seed, ctx.quick)
    # thorough tier: several shards of the driver side by side
    nsh = 1 if (ctx.quick or replay is not None or len(seqs) < 400) else 4
    shards = [seqs[i::nsh] for i in range(nsh)]
    with cf.ThreadPoolExecutor(max_workers=nsh) as ex:
        runs = list(ex.map(lambda a: run_driver(ctx, plugin, a[1], "-%d" % a[0]), enumerate(shards)))
    viols, consumed, cover, lines, hang = [], 0, {}, [], False
    for i, (tp, w, hg) in enumerate(runs):
        v, c, cv, ls = validate(ctx, plugin, tp, "-%d" % i)
        viols += v
        consumed += c
        lines += ls
        hang = hang or hg
        for k, n in cv.items():
            cover[k] = cover.get(k, 0) + n
    st = trace_stats(lines)
    st["driver_wall_s"] = max(w for _, w, _ in runs)
    st["simulate_wall_s"] = sim_wall
    st["wall_s"] = round(time.time() - t0, 1)
    st["validated_lines"] = consumed
    st["situations"] = dict(sorted(cover.items()))
    # merged trace kept for inspection (quick tier, or whenever something was found)
    merged = ctx.path("side", "trace-%s.ndjson" % plugin)
    for tp, _, _ in runs:
        if tp != merged:
            os.remove(tp)
    if ctx.quick or viols:
        open(merged, "w").write("\n".join(lines) + "\n")
    elif os.path.exists(merged):
        os.remove(merged)

    # vacuity guards (not for replays, not when a handler hung: the run was cut short)
    if replay is None and not hang:
        # situations that depend on what the code ANSWERED (":ok", ":refused", served probes) are demanded only when
        # nothing new was found: a change that turns refusals into panics is a violation, not a vacuous run
        fresh = [v for v in viols if not vlib.match_kf(vlib.load_known_findings(), "C14", v)]
        answered = lambda t: t.endswith((":ok", ":refused")) or t == "Probe:served-after-refusal"
        missing = [t for t in NEED[plugin] if cover.get(t, 0) == 0 and not (fresh and answered(t))]
        if missing:
            raise vlib.Inconclusive("side plugins: the %s sequences never exercised: %s" % (plugin, missing))
        if st["events"] < MIN_EVENTS[plugin][0 if ctx.quick else 1]:
            raise vlib.Inconclusive("side plugins: only %d events on %s" % (st["events"], plugin))
        for h in PLUGINS[plugin]["handlers"]:
            if sum(st["by_handler"].get(h, {}).values()) < (5 if h == "Close" else 50):
                raise vlib.Inconclusive("side plugins: handler %s of %s was called %s times only" % (h, plugin, st["by_handler"].get(h)))
        if plugin == "memtierd" and not fresh and (st["memtierd_launched"] == 0 or st["memtierd_stopped"] == 0):
            raise vlib.Inconclusive("side plugins: memtierd was never launched / stopped (%s)" % st)
        if not st["sequences_end_with_probes_or_close"]:
            raise vlib.Inconclusive("side plugins: a %s sequence ended without its final probes" % plugin)

    # violations in the shape engines/l2.py uses, with what is needed to replay
    sq = {s["s"]: s for s in seqs}
    for v in viols:
        v["witness"] = v.pop("w", "")
        v["h"] = "side:%s:%s" % (plugin, v["s"])
    kfs = vlib.load_known_findings()
    bad = []
    for v in sorted(viols, key=lambda v: 1 if vlib.match_kf(kfs, "C14", v) else 0):      # new kinds first
        if v["s"] in sq and v["s"] not in [b["s"] for b in bad]:
            bad.append(sq[v["s"]])
    return plugin, viols, st, bad[:3]


def run_side(ctx, replay=None):
    """-> (violations, coverage).  ctx.side_replay is set to what `replay` must be given to reproduce the violations."""
    t0 = time.time()
    cov = {}
    todo = [p for p in PLUGINS if replay is None or replay.get(p)]
    with cf.ThreadPoolExecutor(max_workers=4) as ex:
        fd = ex.submit(design_check, ctx) if replay is None else None
        futs = [ex.submit(run_plugin, ctx, p, None if replay is None else replay[p]) for p in todo]
        res = [f.result() for f in futs]
        design = fd.result() if fd else {}
    viols, payload = [], {}
    for plugin, v, st, bad in res:
        viols += v
        cov[plugin] = st
        if bad:
            payload[plugin] = bad
    ctx.side_replay = payload
    cov["design"] = design
    cov["sequences"] = sum(cov[p]["sequences"] for p in todo)
    cov["events"] = sum(cov[p]["events"] for p in todo)
    cov["predicates"] = sorted(PREDS)
    cov["rule"] = ("one event = one call of a real handler (Configure / CreateContainer / StartContainer / StopContainer / onClose) on a "
                   "plugin instance that lives for the whole sequence, under recover() and a watchdog; sequences are TLC-simulated "
                   "behaviours of SidePlugin.tla with seeded concrete values; every line stepped by TLC through Trace_SidePlugin")
    cov["wall_s"] = round(time.time() - t0, 1)
    return viols, cov
