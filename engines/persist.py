"""Engine: persistence of the pod/container cache (C10).

1. design check: TLC exhaustively on MC_Persist (save protocol at system-call granularity with Crash / Fail / Tamper,
   over SEVERAL generations: versions of different sizes, temporary files left behind by interrupted saves, memory that
   is partly only loaded after a restart); deviation configurations (write in place, ignore the write error, rename
   before the data is written, unlink the old file first, Stat instead of Lstat, temporary file opened without
   truncation, a save that serializes only what was touched in this process, a failed read of the cache file taken for
   an empty cache) MUST each violate their invariant, six
   reachability configurations MUST be reachable -- the predicates can see the bug classes and the situations exist
2. drivers on the REAL code (harness/cmd/persistdrv):
   a. round trip: L2 request histories of both policies on a real resource manager; after EVERY request the cache is
      saved, its directory copied, re-opened by a fresh cache.NewCache and a projection through every public getter is
      compared; snapshots are additionally decorated through the public cache API (pod resources, device topology
      hints, tags, resource updates, containers in every state, policy entries of every supported type)
   b. crash points: for >= 5 distinct snapshots one Save in a child process under `strace -e inject` for EVERY
      disk-affecting system call of the save: SIGKILL before it, ENOSPC and EIO from it; plus writes really cut short
      by RLIMIT_FSIZE (error path and kill after the short write); then a fresh cache.NewCache on what is left
   c. unsafe paths: symlink / fifo / socket / wrong type / group- or other-writable cache file, directory, data dir
   d. the system calls naming the final path during a save (replace-by-rename only), inode change on every save
   e. second / third generation: a cache loaded from a saved directory performs ONE saving operation before anything
      is read from it; the directory is re-opened and compared with it (rt2)
   f. a save after an interrupted save: restart on what a fault run left (temporary file included) or on a synthetic
      leftover, one shrinking / growing mutation that saves once, reload (crash2)
   g. load faults: a start-up (NewCache, then Save) in a child under strace whose openat / read of the intact cache file
      returns EIO / EACCES / EMFILE; then a fault-free NewCache on the directory (loadfault)
3. TLC evaluates the predicates of PersistPreds on the records (Trace_Persist); verdict from real-code records only.
"""
import concurrent.futures as cf
import json
import os
import random
import shutil
import time

import vlib
from engines import l2gen

PROPS = ["C10"]
PREDS = {"Act_ReloadEqualsLastSave", "Inv_FileIsCompleteSnapshot", "Inv_RefuseUnsafePath", "Act_OnlyRename", "Trace"}

# (configuration name, Deviation, what TLC must report as violated, minimal number of Restart steps in the counterexample)
DEVIATIONS = [("inplace", "inplace", "Inv_FileIsCompleteSnapshot", 0), ("ignore_write_error", "ignore_write_error", "Inv_FileIsCompleteSnapshot", 0),
              ("early_rename", "early_rename", "Inv_FileIsCompleteSnapshot", 0), ("unlink_first", "unlink_first", "Inv_FileIsCompleteSnapshot", 0),
              ("stat_follows_symlink", "stat_follows_symlink", "Inv_RefuseUnsafePath", 0),
              ("no_trunc", "no_trunc", "Inv_FileIsCompleteSnapshot", 0), ("no_trunc_load", "no_trunc", "Inv_LoadsWithoutError", 1),
              ("drop_untouched", "drop_untouched", "Act_ReloadEqualsLastSave", 2),
              ("swallow_read_error", "swallow_read_error", "Act_ReloadEqualsLastSave", 1)]
REACH = ["Reach_TornTmpAfterCrash", "Reach_NewAfterCrashInSave", "Reach_Refused", "Reach_SaveOverLongerLeftover", "Reach_SaveWhileUntouched",
         "Reach_ReadError"]
LOADSNAPS = (6, 16)   # snapshots whose start-up is run with read faults on the cache file (quick, thorough)
STATE_NAMES = {"-1": "creating", "0": "unknown", "1": "created", "2": "paused", "3": "running", "4": "exited", "5": "stale"}
GEN2 = (2, 2)   # a second generation for every n-th L2 round trip (quick, thorough); every decorated one gets it
AFF = "resource-policy.nri.io/affinity"
ANTI = "resource-policy.nri.io/anti-affinity"


# ------------------------------------------------------------------------------------------------ design check

def design_check(ctx):
    """Returns (baseline result, per-configuration summary)."""
    q = ctx.quick
    chunks, maxver = (2, 4) if q else (3, 5)

    def cfg_for(name, dev, invs):
        # an action property is checked on its own: the state invariants would fire first
        body = "PROPERTIES Act_ReloadEqualsLastSave\n" if invs.startswith("Act_") else "INVARIANTS %s\nPROPERTIES Act_ReloadEqualsLastSave\n" % invs
        txt = ("SPECIFICATION Spec\nCONSTANTS\n  Chunks = %d\n  MaxVer = %d\n  Deviation = \"%s\"\n%sCHECK_DEADLOCK FALSE\n") % (chunks, maxver, dev, body)
        p = ctx.path("mc", name + ".cfg")
        open(p, "w").write(txt)
        return p

    jobs = [("base", cfg_for("base", "none", "TypeOK Inv_FileIsCompleteSnapshot Inv_LoadsWithoutError Inv_RefuseUnsafePath"), None, 0)]
    for name, d, inv, restarts in DEVIATIONS:
        jobs.append(("dev_" + name, cfg_for("dev_" + name, d, inv), inv, restarts))
    for r in REACH:
        jobs.append((r, cfg_for(r, "none", r), r, 0))

    def one(j):
        name, cfgp = j[0], j[1]
        return vlib.tlc("MC_Persist", cfgp, ctx.path("mc", name), workers=4 if name != "base" else 8, timeout=300 if q else 1200)
    with cf.ThreadPoolExecutor(max_workers=len(jobs)) as ex:
        res = list(ex.map(one, jobs))
    summary = {}
    base = res[0]
    if not base["ok"]:
        raise vlib.Inconclusive("design model check did not pass: violated=%s error=%s\n%s" % (base["violated"], base["error"], base["out"][-3000:]))
    for (name, _, want, restarts), r in zip(jobs[1:], res[1:]):
        if r["violated"] != want:
            raise vlib.Inconclusive("design configuration %s: expected TLC to violate %s, got violated=%s error=%s\n%s" % (
                name, want, r["violated"], r["error"], r["out"][-2000:]))
        nrestart = r["out"].count("<Restart")     # Restart and RestartReadFail steps
        if nrestart < restarts:
            raise vlib.Inconclusive("design configuration %s: the counterexample has %d restarts, expected a history over >= %d" % (name, nrestart, restarts))
        summary[name] = {"violates": want, "after_states": r["distinct"], "restarts_in_counterexample": nrestart}
    return base, summary, ("Persist: up to %d chunks per snapshot (sizes differ by version), %d memory versions, Crash/Fail at every step, leftover temporary "
                           "files, loaded-but-untouched memory after a restart, one tampered path at a time" % (chunks, maxver))


# ------------------------------------------------------------------------------------------------ histories

def add_affinities(h, rnd):
    """Annotate some pods with container affinities (both notations) between their own containers."""
    ctrs = {}
    for o in h["ops"]:
        if o["op"] == "Create":
            ctrs.setdefault(o["pod"], []).append(o["c"])
    for o in h["ops"]:
        if o["op"] != "RunPod" or "pods" not in o:
            continue
        cs = ctrs.get(o["pod"], [])
        if not cs or rnd.random() > 0.5:
            continue
        ann = o["pods"].setdefault("ann", {})
        a, b = cs[0], cs[-1]
        if rnd.random() < 0.5:
            ann[AFF] = "%s: [ %s ]\n" % (a, ", ".join(sorted(set(cs[1:] or [a]))))
        else:
            ann[AFF] = ("%s:\n- match:\n    key: name\n    operator: In\n    values: [ %s ]\n  weight: %d\n" %
                        (a, ", ".join(cs), rnd.randint(1, 20)))
        if rnd.random() < 0.4:
            ann[ANTI] = ("%s:\n- scope:\n    key: namespace\n    operator: NotIn\n    values: [ kube-system ]\n  match:\n    key: name\n"
                         "    operator: Equals\n    values: [ %s ]\n" % (b, a))
    return h


def gen_histories(ctx, binp):
    rnd = random.Random(ctx.seed * 104729 + 10)
    ms = l2gen.machines(binp)
    nworld, per, nops = (10, 2, 28) if ctx.quick else (60, 4, 45)
    worlds = l2gen.ta_worlds(ms, rnd, nworld) + l2gen.balloons_worlds(ms, rnd, nworld)
    hs = []
    for w in worlds:
        for _ in range(per):
            hs.append(add_affinities(l2gen.lifecycle_history(w, rnd, nops), rnd))
    return hs


def run_shards(ctx, binp, hs, outdir):
    os.makedirs(outdir, exist_ok=True)
    sp = os.path.join(outdir, "histories.json")
    json.dump(hs, open(sp, "w"))
    shards = min(vlib.NCPU, max(1, len(hs) // 2))
    per = (len(hs) + shards - 1) // shards
    shared = os.path.join(vlib.OUT, "fixtures-shared")
    os.makedirs(shared, exist_ok=True)
    snapdir = os.path.join(outdir, "snaps")

    def one(i):
        a, b = i * per, min(len(hs), (i + 1) * per)
        tp = os.path.join(outdir, "trace-%02d.ndjson" % i)
        if a >= b:
            open(tp, "w").close()
            return tp, 0, ""
        rc, out = vlib.sh([binp, "run", "--script", sp, "--out", tp, "--scratch", os.path.join(outdir, "scratch-%02d" % i),
                           "--shared", shared, "--from", str(a), "--to", str(b), "--snapout", snapdir, "--seed", str(ctx.seed),
                           "--decors", "2" if ctx.quick else "3", "--gen2", str(GEN2[0 if ctx.quick else 1]), "--gen3", "5"],
                          timeout=600 if ctx.quick else 2400)
        shutil.rmtree(os.path.join(outdir, "scratch-%02d" % i), ignore_errors=True)
        return tp, rc, out
    with cf.ThreadPoolExecutor(max_workers=shards) as ex:
        res = list(ex.map(one, range(shards)))
    recs = []
    for tp, rc, out in res:
        if rc != 0:
            raise vlib.Inconclusive("persistdrv run failed rc=%s: %s" % (rc, out[-1500:]))
        recs += vlib.read_ndjson(tp)
        os.remove(tp)
    return recs


def pick_snapshots(recs, n, rnd):
    """n distinct snapshots: decorated ones of both policies first (richest content), then plain L2 ones."""
    snaps = [r for r in recs if r["ev"] == "snap"]
    seen, out = set(), []

    def richness(s):
        f = s.get("feat", {})
        return len(f) * 100 + f.get("ctrs", 0)
    groups = {}
    for s in snaps:
        groups.setdefault((s["origin"], s["policy"]), []).append(s)
    order = [("decor", "ta"), ("decor", "balloons"), ("l2", "ta"), ("l2", "balloons")]
    for g in order:
        groups.setdefault(g, []).sort(key=richness, reverse=True)
    i = 0
    while len(out) < n and any(groups[g] for g in order):
        g = order[i % len(order)]
        i += 1
        if not groups[g]:
            continue
        # the richest of the group, then random ones
        s = groups[g].pop(0) if i <= 2 * len(order) else groups[g].pop(rnd.randrange(len(groups[g])))
        if s["hash"] in seen:
            continue
        seen.add(s["hash"])
        out.append(s)
    return out


# ------------------------------------------------------------------------------------------------ trace for TLC

def ascii_(s, n=240):
    s = s if isinstance(s, str) else json.dumps(s)
    return "".join(c if 32 <= ord(c) < 127 else "?" for c in s)[:n]


def reduce_record(i, e):
    ev = e["ev"]
    if ev == "rt":
        r = {k: e.get(k) for k in ("ev", "h", "k", "op", "origin", "loaded", "equal", "diff", "had_file", "saveerr", "ino_changed")}
        r["loaderr"] = ascii_(e.get("loaderr", ""))
        r["examples"] = {k: ascii_(v) for k, v in (e.get("examples") or {}).items()}
        r["diff"] = e.get("diff") or []
        r["api_panics"] = [{"fn": x["fn"], "msg": ascii_(x["msg"])} for x in (e.get("api_panics") or [])]
    elif ev == "rt2":
        r = {k: e.get(k) for k in ("ev", "h", "k", "op", "origin", "gen", "variant", "loaded", "equal")}
        r["loaded"] = bool(e.get("loaded"))
        r["loaderr"] = ascii_(e.get("loaderr", ""))
        r["examples"] = {k: ascii_(v) for k, v in (e.get("examples") or {}).items()}
        r["diff"] = e.get("diff") or []
        r["api_panics"] = [{"fn": x["fn"], "msg": ascii_(x["msg"])} for x in (e.get("api_panics") or [])]
    elif ev == "crash2":
        r = {k: e.get(k) for k in ("ev", "snap", "variant", "point", "what", "mut", "loaded", "new_bytes", "snap_bytes", "bytes_equal", "tmp_left", "saveerr")}
        r["loaderr"] = ascii_(e.get("loaderr", ""))
        r["examples"] = {k: ascii_(v) for k, v in (e.get("examples") or {}).items()}
        r["diff"] = e.get("diff") or []
    elif ev == "leftover_obs":
        r = {"ev": ev, "what": e.get("what", "")}
    elif ev == "loadplan":
        r = {"ev": ev, "snap": e["snap"], "points": e.get("points") or []}
    elif ev == "loadfault":
        r = {k: e.get(k) for k in ("ev", "snap", "point", "sys", "errno", "fired", "matched", "started", "started_equal", "after_loaded",
                                   "after_equal", "after_empty")}
        r["child"] = ascii_(e.get("child", "").replace("\n", " | "))
        r["loaderr"] = ascii_(e.get("loaderr", ""))
    elif ev == "crash":
        r = {k: e.get(k) for k in ("ev", "snap", "variant", "point", "kind", "sys", "loaded", "eq_old", "eq_new", "fired", "matched", "save_reported")}
        r["loaderr"] = ascii_(e.get("loaderr", ""))
        r["target"] = ascii_(e.get("target", ""))
        r["sys"] = r["sys"] or ""
    elif ev == "plan":
        r = {"ev": ev, "snap": e["snap"], "variant": e["variant"], "points": e.get("points") or []}
    elif ev == "touch":
        r = {k: e.get(k) for k in ("ev", "snap", "variant", "renames", "ino_changed")}
        r["final"] = e.get("final") or []
        r["bad"] = e.get("bad") or []
    elif ev == "unsafe":
        r = {k: e.get(k) for k in ("ev", "target", "kind", "modeoct", "refused", "hang")}
        r["mode"] = e.get("mode") or []
    elif ev == "hang":
        r = {"ev": ev, "op": e.get("op", ""), "h": e.get("h", -1), "k": e.get("k", -1)}
    else:
        return None
    r["src"] = i
    return r


def validate(ctx, recs, nchunks):
    """rt records are spread over chunks; plan/crash/touch/unsafe stay together (domain-coverage postcondition)."""
    red = [reduce_record(i, e) for i, e in enumerate(recs)]
    red = [r for r in red if r is not None]
    rts = [r for r in red if r["ev"] in ("rt", "rt2", "hang")]
    rest = [r for r in red if r["ev"] not in ("rt", "rt2", "hang")]
    chunks = [rest] if rest else []
    per = max(1, (len(rts) + nchunks - 1) // nchunks)
    for a in range(0, len(rts), per):
        chunks.append(rts[a:a + per])
    files = []
    for i, c in enumerate(chunks):
        fp = ctx.path("tv", "chunk%02d.ndjson" % i)
        vlib.write_ndjson(fp, c)
        files.append(fp)

    def one(fp):
        return vlib.validate_trace("Trace_Persist", "Trace_Persist.cfg", fp, ctx.path("tv", "md-" + os.path.basename(fp)),
                                   timeout=600 if ctx.quick else 2400, heap="3g")
    with cf.ThreadPoolExecutor(max_workers=min(len(files), vlib.NCPU)) as ex:
        results = list(ex.map(one, files))
    viols, consumed = [], 0
    for fp, r in zip(files, results):
        out = r["res"]["out"]
        if r["consumed"] is None or r["consumed"] != r["total"]:
            raise vlib.Inconclusive("trace validation did not consume %s (%s of %s): %s\n%s" % (
                fp, r["consumed"], r["total"], r["res"]["error"], out[-2500:]))
        if '"UNCOVERED 0"' not in out and "UNCOVERED 0" not in out:
            raise vlib.Inconclusive("domain coverage: planned fault points without a fired record (%s)\n%s" % (fp, out[-1200:]))
        if not r["res"]["ok"]:
            raise vlib.Inconclusive("trace validation failed on %s: %s\n%s" % (fp, r["res"]["error"], out[-2500:]))
        consumed += r["consumed"]
        viols += r["viols"]
    return viols, consumed, len(files)


# ------------------------------------------------------------------------------------------------ vacuity guard

def stats(recs):
    st = {"rt": 0, "rt_l2_ta": 0, "rt_l2_balloons": 0, "rt_decor_ta": 0, "rt_decor_balloons": 0, "rt_unequal": 0, "histories": 0,
          "boot_errors": 0, "op_panics": 0, "feat": {}, "feat_l2": {}, "live_hashes": set(), "info_diff": {}, "plans": 0, "plan_errors": [],
          "crash": 0, "crash_unfired": 0, "by_fault": {}, "outcomes": {}, "torn": 0, "touch": 0, "unsafe": {}, "unsafe_controls": {},
          "crash_cases": set(), "snap_hashes": set(), "harness_errors": [], "hangs": 0, "save_errors": [], "old_eq_new": 0,
          "leftover_tmp": 0, "max_bytes": 0,
          "rt2": 0, "rt2_by": {}, "rt2_untouched": {}, "rt2_gen3": 0, "rt2_done": {}, "rt2_unequal": 0, "rt2_max_untouched": 0,
          "crash2": 0, "crash2_shorter": 0, "crash2_longer": 0, "crash2_real_shorter": 0, "crash2_real": 0, "crash2_what": {}, "crash2_done": {},
          "loadplans": 0, "loadfault": 0, "load_fired": {}, "load_outcomes": {}, "load_cases": set(),
          "rt2_cases": set(), "crash2_cases": set(), "crash2_bad": 0, "crash2_no_snapshot_api": 0, "crash2_max_excess": 0, "obs": {}}
    for e in recs:
        ev = e["ev"]
        if ev == "reset":
            st["histories"] += 1
            st["boot_errors"] += 1 if "booterr" in e else 0
        elif ev == "hang":
            st["hangs"] += 1
        elif ev == "harness_panic":
            st["harness_errors"].append(e.get("msg", "")[:200])
        elif ev == "rt":
            st["rt"] += 1
            st["rt_%s_%s" % (e["origin"], e["policy"])] += 1
            st["rt_unequal"] += 0 if e.get("equal") else 1
            st["op_panics"] += 1 if e.get("oppanic") else 0
            if e.get("harness_error"):
                st["harness_errors"].append(e["harness_error"])
            if e.get("saveerr"):
                st["save_errors"].append(e.get("savemsg", ""))
            for k, v in (e.get("feat") or {}).items():
                st["feat"][k] = st["feat"].get(k, 0) + (1 if v else 0)
                if e["origin"] == "l2":
                    st["feat_l2"][k] = st["feat_l2"].get(k, 0) + (1 if v else 0)
            if (e.get("feat") or {}).get("ctrs"):
                st["live_hashes"].add(e["live_hash"])
            for f in e.get("info_diff") or []:
                st["info_diff"][f] = st["info_diff"].get(f, 0) + 1
            st["max_bytes"] = max(st["max_bytes"], e.get("bytes") or 0)
        elif ev == "rt2":
            if e.get("harness_error"):
                st["harness_errors"].append(e["harness_error"])
                continue
            st["rt2"] += 1
            key = "%s_%s" % (e["origin"], e["policy"])
            st["rt2_by"][key] = st["rt2_by"].get(key, 0) + 1
            if e.get("saveerr"):
                st["save_errors"].append(e.get("savemsg", ""))
            # entries that sat in the loaded form when the save was made: in the file the instance started from AND read
            # back by the projection afterwards
            if e.get("entries_in_file", 0) >= 1 and e.get("entries_untouched", 0) >= 1:
                st["rt2_untouched"][e["policy"]] = st["rt2_untouched"].get(e["policy"], 0) + 1
                st["rt2_max_untouched"] = max(st["rt2_max_untouched"], e["entries_untouched"])
            st["rt2_gen3"] += 1 if e.get("gen") == 3 else 0
            d = e.get("done", "")
            st["rt2_done"][d] = st["rt2_done"].get(d, 0) + 1
            st["rt2_unequal"] += 0 if e.get("equal") else 1
            st["rt2_cases"].add((e.get("live_hash"), e.get("gen"), d))
        elif ev == "crash2":
            st["crash2"] += 1
            real = e.get("kind") != "synthetic"
            st["crash2_real"] += 1 if real else 0
            if e.get("saveerr"):
                st["save_errors"].append(e.get("savemsg", ""))
            if e.get("shorter"):
                st["crash2_shorter"] += 1
                st["crash2_real_shorter"] += 1 if real else 0
                st["crash2_max_excess"] = max(st["crash2_max_excess"], e["leftover_bytes"] - e["new_bytes"])
            elif e.get("new_bytes", 0) > e.get("leftover_bytes", 0):
                st["crash2_longer"] += 1
            st["crash2_cases"].add((e.get("snap"), e["what"], e.get("done"), e.get("point"), e.get("leftover_bytes")))
            st["crash2_what"][e["what"]] = st["crash2_what"].get(e["what"], 0) + 1
            st["crash2_done"][e.get("done", "")] = st["crash2_done"].get(e.get("done", ""), 0) + 1
            st["crash2_no_snapshot_api"] += 1 if e.get("snap_bytes", -1) < 0 else 0
            st["crash2_bad"] += 0 if (e.get("loaded") and not e.get("diff") and e.get("bytes_equal") and not e.get("tmp_left")) else 1
        elif ev == "loadplan":
            st["loadplans"] += 1
            if e.get("error"):
                st["plan_errors"].append(e["error"][:300])
            elif not e.get("control_hash_equal"):
                st["plan_errors"].append("fault-free start-up in the child does not show the snapshot's projection (%s)" % e["snap"])
        elif ev == "loadfault":
            st["loadfault"] += 1
            if e.get("harness_error"):
                st["harness_errors"].append(e["harness_error"][:200])
            if not (e.get("fired") and e.get("matched")):
                st["crash_unfired"] += 1
                continue
            k = "%s:%s" % (e["role"] if e["role"] == "open" else e["role"], e["errno"])
            st["load_fired"][k] = st["load_fired"].get(k, 0) + 1
            oc = ("started" if e["started"] else "refused") + ("; snapshot intact" if e["after_loaded"] and e["after_equal"] else "; SNAPSHOT LOST")
            st["load_outcomes"][oc] = st["load_outcomes"].get(oc, 0) + 1
            st["load_cases"].add((e["snap"], e["sys"], e["ord"], e["errno"]))
        elif ev == "leftover_obs":
            k = "%s: save %s%s; temp path then %s; cache path then %s; next start %s%s" % (
                e["what"], e.get("save", "not tried").split(":")[0], " (blocked until a reader appeared)" if e.get("save_blocked") else "",
                e.get("tmp_after", "?"), e.get("cache_after", "?"), e.get("next_start", "?").split(":")[0],
                "; written THROUGH the link" if e.get("symlink_target_written") else "")
            st["obs"][k] = st["obs"].get(k, 0) + 1
        elif ev == "plan":
            st["plans"] += 1
            if e.get("error"):
                st["plan_errors"].append(e["error"][:300])
            else:
                st["snap_hashes"].add(e["old_hash"])
                st["old_eq_new"] += 0 if e["old_ne_new"] else 1
        elif ev == "crash":
            st["crash"] += 1
            if e.get("harness_error"):
                st["harness_errors"].append(e["harness_error"][:200])
            if not (e.get("fired") and e.get("matched")):
                st["crash_unfired"] += 1
                continue
            key = e["kind"] + (":" + e["sys"] if e.get("sys") and not e["kind"].startswith("torn") else "") + (":" + e["errno"] if e.get("errno") else "")
            st["by_fault"][key] = st["by_fault"].get(key, 0) + 1
            oc = "load-failed" if not e["loaded"] else "new" if e["eq_new"] else "old" if e["eq_old"] else "neither"
            st["outcomes"][e["kind"] + "->" + oc] = st["outcomes"].get(e["kind"] + "->" + oc, 0) + 1
            st["torn"] += 1 if e["kind"].startswith("torn") and 0 < e.get("fsize", 0) else 0
            st["leftover_tmp"] += 1 if "cache.saving" in (e.get("leftovers") or []) else 0
            st["crash_cases"].add((e["snap"], e["variant"], e["kind"], e.get("sys"), e.get("ord"), e.get("errno"), e.get("fsize")))
        elif ev == "touch":
            st["touch"] += 1
        elif ev == "unsafe":
            if e.get("harness_error"):
                st["harness_errors"].append(e["harness_error"])
                continue
            unsafe = e["kind"] != ("regular" if e["target"] == "file" else "directory") or bool(e["mode"])
            key = e["target"] + ":" + (e["kind"] if e["kind"] != ("regular" if e["target"] == "file" else "directory") else "+".join(e["mode"]) or "safe")
            if unsafe:
                st["unsafe"][key] = st["unsafe"].get(key, 0) + 1
            else:
                st["unsafe_controls"][e["target"] + ":" + e["modeoct"]] = bool(e.get("refused"))
    return st


def vacuity(st, q):
    missing = []
    for k in ("rt_l2_ta", "rt_l2_balloons", "rt_decor_ta", "rt_decor_balloons"):
        if st[k] == 0:
            missing.append(k)
    f = st["feat"]
    for k in ("state_-1", "state_1", "state_3", "state_4", "state_5", "state_0", "updates", "tags", "hints", "hints_cpus", "affinity",
              "podresources", "entries", "ta_allocations", "cpuset", "memset", "mounts", "devices"):
        if not f.get(k):
            missing.append("snapshot content: " + k)
    for k in ("state_1", "state_3", "state_4", "state_5", "updates", "cpuset", "memset", "affinity", "ta_allocations"):
        if not st["feat_l2"].get(k):
            missing.append("L2 snapshot content: " + k)
    if len(st["snap_hashes"]) < (5 if q else 20):
        missing.append("distinct snapshots with a full fault enumeration: %d" % len(st["snap_hashes"]))
    bf = st["by_fault"]
    classes = {"open": ("open", "openat", "openat2", "creat"), "write": ("write", "pwrite64", "writev", "pwritev", "pwritev2"),
               "close": ("close",), "rename": ("rename", "renameat", "renameat2", "link", "linkat")}
    for cname, members in classes.items():
        if not any(bf.get("kill:" + m) for m in members):
            missing.append("kill before a %s call" % cname)
        for en in ("ENOSPC", "EIO"):
            if not any(bf.get("error:%s:%s" % (m, en)) for m in members):
                missing.append("%s from a %s call" % (en, cname))
    for k in ("none", "torn-error", "torn-kill"):
        if not bf.get(k):
            missing.append("fault kind " + k)
    if not st["torn"]:
        missing.append("a write cut short at a byte offset > 0")
    oc = st["outcomes"]
    for k in ("kill->old", "kill->new", "none->new", "error->old"):
        if not oc.get(k):
            missing.append("outcome " + k)
    for t in ("file", "dir", "datadir"):
        for k in ("symlink", "fifo", "gw", "ow"):
            if not st["unsafe"].get(t + ":" + k):
                missing.append("unsafe path %s:%s" % (t, k))
    for k in ("file:directory", "dir:regular", "datadir:regular", "file:symlink-dangling", "file:socket"):
        if not st["unsafe"].get(k):
            missing.append("unsafe path " + k)
    if st["touch"] < len(st["snap_hashes"]):
        missing.append("final-path observations")
    # several generations
    n2, n3, nc = (20, 5, 20) if q else (200, 50, 100)
    for pol in ("ta", "balloons"):
        if st["rt2_untouched"].get(pol, 0) < n2:
            missing.append("second-generation saves of a %s cache with >= 1 policy entry untouched before the save: %d < %d" % (pol, st["rt2_untouched"].get(pol, 0), n2))
    for k in ("l2_ta", "l2_balloons", "decor_ta", "decor_balloons"):
        if not st["rt2_by"].get(k):
            missing.append("second-generation round trips of origin " + k)
    if st["rt2_gen3"] < n3:
        missing.append("third-generation round trips: %d < %d" % (st["rt2_gen3"], n3))
    for v in ("save", "insertpod", "deletectr", "setpolicy", "insertctr", "deletepod"):
        if not st["rt2_done"].get(v):
            missing.append("second-generation saving operation " + v)
    if st["crash2_shorter"] < nc or st["crash2_longer"] < nc:
        missing.append("saves after an interrupted save with a snapshot shorter / longer than the leftover: %d / %d < %d" % (
            st["crash2_shorter"], st["crash2_longer"], nc))
    if st["crash2_real_shorter"] < 5:
        missing.append("saves shorter than a temporary file that a REAL interrupted save left: %d < 5" % st["crash2_real_shorter"])
    for w in ("valid-longer", "valid-longer-mode-0600", "garbage-longer", "empty"):
        if not st["crash2_what"].get(w):
            missing.append("synthetic leftover " + w)
    if not any(k.startswith(("kill@", "torn-kill@")) for k in st["crash2_what"]) or not any(k.startswith("error@") for k in st["crash2_what"]):
        missing.append("leftovers of a killed and of a failed save")
    nl = 4 if q else 10
    for k in ("open:EIO", "open:EACCES", "open:EMFILE", "read1:EIO"):
        if st["load_fired"].get(k, 0) < nl:
            missing.append("load faults fired on the cache file (%s): %d < %d" % (k, st["load_fired"].get(k, 0), nl))
    for m in ("delbig", "delpod", "trim", "insertpod", "bigentry"):
        if not st["crash2_done"].get(m):
            missing.append("mutation after a leftover: " + m)
    return missing


# ------------------------------------------------------------------------------------------------ run

def run(ctx):
    q = ctx.quick

    def stage(msg):
        vlib.log("C10 +%.1fs %s" % (time.time() - ctx.t0, msg))
    binp = vlib.build_harness(cmd="persistdrv")
    stage("harness built")
    rc, out = vlib.sh(["strace", "-V"], timeout=20)
    if rc != 0:
        raise vlib.Inconclusive("strace is not available: " + out[-300:])
    rnd = random.Random(ctx.seed * 31 + 7)

    if ctx.replay:
        rp = json.load(open(ctx.replay))
        hs = rp["replay"]["histories"]
        want = rp["replay"].get("snapshots") or []
        mc = None
    else:
        mc, devs, desc = design_check(ctx)
        stage("design check: %d states" % mc["distinct"])
        hs = gen_histories(ctx, binp)
        want = None

    def sub(*a):
        p = os.path.join(ctx.out, *a)
        os.makedirs(p, exist_ok=True)
        return p

    recs = run_shards(ctx, binp, hs, sub("run"))
    stage("round trips: %d records" % len(recs))
    nsn = 10 if q else 40
    if want is not None:
        snaps, variants = [], {}
        for s in recs:
            for w in want:
                if s["ev"] == "snap" and (s["h"], s["k"], s["origin"]) == (w["h"], w["k"], w["origin"]):
                    snaps.append(s)
                    variants[s["name"]] = w["variant"]
    else:
        snaps = pick_snapshots(recs, nsn, rnd)
        vs = ["entry", "insertpod", "setpolicy", "deletectr"]
        variants = {s["name"]: vs[i % len(vs)] for i, s in enumerate(snaps)}
    if snaps:
        lp = ctx.path("crash", "snaps.json")
        json.dump([{"name": s["name"], "dir": s["dir"], "variant": variants[s["name"]]} for s in snaps], open(lp, "w"))
        tp = ctx.path("crash", "trace.ndjson")
        rc, out = vlib.sh([binp, "crash", "--snaps", lp, "--out", tp, "--work", sub("crash", "work"), "--self", binp,
                           "--workers", str(vlib.NCPU), "--torn", "2" if q else "12", "--seed", str(ctx.seed),
                           "--loadsnaps", str(LOADSNAPS[0 if q else 1])], timeout=600 if q else 3000)
        if rc != 0:
            raise vlib.Inconclusive("persistdrv crash failed rc=%s: %s" % (rc, out[-2000:]))
        recs += vlib.read_ndjson(tp)
        shutil.rmtree(sub("crash", "work"), ignore_errors=True)
    stage("crash enumeration: %d records" % len(recs))
    up = ctx.path("unsafe", "trace.ndjson")
    rc, out = vlib.sh([binp, "unsafe", "--out", up, "--work", sub("unsafe", "work")], timeout=300)
    if rc != 0:
        raise vlib.Inconclusive("persistdrv unsafe failed rc=%s: %s" % (rc, out[-2000:]))
    recs += vlib.read_ndjson(up)
    shutil.rmtree(sub("unsafe", "work"), ignore_errors=True)
    shutil.rmtree(os.path.join(ctx.out, "run", "snaps"), ignore_errors=True)
    vlib.write_ndjson(ctx.path("trace.ndjson"), recs)

    stage("unsafe paths; validating")
    viols, consumed, nchunks = validate(ctx, recs, 4 if q else 16)
    stage("validated %d records in %d chunks" % (consumed, nchunks))
    mine = [v for v in viols if v["pred"] in PREDS]

    st = stats(recs)
    if st["harness_errors"]:
        raise vlib.Inconclusive("harness trouble: %s" % json.dumps(st["harness_errors"][:3]))
    # everything below guards an "exit 0"; it never hides a violation observed on the real code
    if not mine and (st["plan_errors"] or st["save_errors"]):
        raise vlib.Inconclusive("harness trouble: %s" % json.dumps({k: st[k][:3] for k in ("plan_errors", "save_errors")}))
    if not mine and st["crash_unfired"]:
        raise vlib.Inconclusive("%d fault runs did not fire at the planned system call" % st["crash_unfired"])
    refused_controls = [k for k, v in st["unsafe_controls"].items() if v]
    if not mine and refused_controls:
        raise vlib.Inconclusive("safe control paths were refused (the unsafe-path check would be vacuous): %s" % refused_controls)
    if not ctx.replay and not mine:
        miss = vacuity(st, q)
        if st["old_eq_new"]:
            miss.append("a crash snapshot whose mutation did not change the projection")
        if miss:
            raise vlib.Inconclusive("drivers never exercised: %s" % miss)

    payload = None
    if mine:
        hidx = sorted({v["h"] for v in mine if v.get("h", -1) >= 0})[:4]
        snames = sorted({v["snap"] for v in mine if v.get("snap")})[:4]
        by_name = {s["name"]: s for s in snaps}
        for n in snames:
            if n in by_name and by_name[n]["h"] not in hidx:
                hidx.append(by_name[n]["h"])
        payload = {"histories": [hs[i] for i in hidx],
                   "snapshots": [{"h": hidx.index(by_name[n]["h"]), "k": by_name[n]["k"], "origin": by_name[n]["origin"], "variant": variants[n]}
                                 for n in snames if n in by_name],
                   "records": [recs[v["src"]] for v in mine[:10] if 0 <= v.get("src", -1) < len(recs)]}

    samples = [e for e in recs if e["ev"] == "rt" and e["origin"] == "decor"][:1] + [e for e in recs if e["ev"] == "plan"][:1] + \
              [e for e in recs if e["ev"] == "crash" and e["kind"] == "kill"][:2] + [e for e in recs if e["ev"] == "unsafe" and e["kind"] == "symlink"][:1] + \
              [e for e in recs if e["ev"] == "rt2" and e.get("entries_untouched")][:1] + [e for e in recs if e["ev"] == "crash2" and e.get("shorter")][:1] + \
              [e for e in recs if e["ev"] == "loadfault" and e.get("fired")][:1]
    for s in samples:
        s.pop("examples", None)
    ncrash = len(st["crash_cases"])
    nun = sum(st["unsafe"].values()) + len(st["unsafe_controls"])
    cov = {
        "evaluations": st["rt"] + st["rt2"] + st["crash"] + st["crash2"] + st["loadfault"] + nun + st["touch"],
        "distinct_nontrivial": len(st["live_hashes"]) + len(st["rt2_cases"]) + ncrash + len(st["crash2_cases"]) + len(st["load_cases"]) + len(st["unsafe"]),
        "rule": "evaluations = round-trip comparisons (one per request of every history and per decoration round) + second/third "
                "generation round trips + fault runs (one child process per fault point) + saves after an interrupted save + load faults + unsafe-path "
                "cases + final-path observations. distinct_nontrivial = distinct live-cache "
                "projections holding at least one container that were round-tripped + distinct (projection after the saving operation, generation, "
                "operation) second/third generations + distinct (snapshot, leftover kind, mutation, fault point, leftover size) saves after an "
                "interrupted save + distinct (snapshot, system call, ordinal, errno) load faults that fired + distinct (snapshot, variant, fault kind, system call, "
                "ordinal, errno, byte offset) fault points whose fault fired at the planned call + distinct unsafe (target, kind/mode) classes",
        "exhaustive": False,
        "fault_points_exhaustive_per_snapshot": True,
        "samples": samples,
        "histories": st["histories"], "round_trips": st["rt"], "round_trip_breakdown": {k: st[k] for k in ("rt_l2_ta", "rt_l2_balloons", "rt_decor_ta", "rt_decor_balloons")},
        "distinct_live_projections": len(st["live_hashes"]), "largest_cache_file_bytes": st["max_bytes"],
        "snapshot_content_seen": {STATE_NAMES.get(k[6:], k) if k.startswith("state_") else k: v for k, v in sorted(st["feat"].items())},
        "crash_snapshots": len(st["snap_hashes"]), "fault_runs": st["crash"], "faults_by_kind": st["by_fault"], "outcomes": st["outcomes"],
        "leftover_temp_files": st["leftover_tmp"], "unsafe_cases": st["unsafe"], "safe_controls_accepted": len(st["unsafe_controls"]),
        "final_path_observations": st["touch"],
        "second_generation": {"round_trips": st["rt2"], "by_origin_policy": st["rt2_by"], "third_generation": st["rt2_gen3"],
                              "with_untouched_policy_entries_by_policy": st["rt2_untouched"], "most_untouched_entries": st["rt2_max_untouched"],
                              "saving_operations": st["rt2_done"], "unequal": st["rt2_unequal"],
                              "sampling": "every decorated round trip and every %d. L2 round trip" % GEN2[0 if q else 1]},
        "save_after_interrupted_save": {"runs": st["crash2"], "on_leftovers_of_real_fault_runs": st["crash2_real"],
                                        "new_snapshot_shorter_than_leftover": st["crash2_shorter"], "longer": st["crash2_longer"],
                                        "shorter_after_a_real_leftover": st["crash2_real_shorter"], "largest_excess_bytes": st["crash2_max_excess"],
                                        "leftover_kinds": st["crash2_what"], "mutations": st["crash2_done"], "not_exact": st["crash2_bad"],
                                        "snapshot_bytes_not_available": st["crash2_no_snapshot_api"]},
        "temp_path_not_a_plain_file_observed_only": st["obs"],
        "load_faults": {"snapshots": st["loadplans"], "runs": st["loadfault"], "fired_by_call_and_errno": st["load_fired"], "outcomes": st["load_outcomes"]}, "not_persisted_by_design": st["info_diff"], "l2_request_panics_seen": st["op_panics"],
        "trace_records_validated": consumed, "traces_validated_against_impl": nchunks,
        "predicates": sorted(PREDS - {"Trace"}),
    }
    if mc is not None:
        cov.update({"states": mc["distinct"], "transitions": mc["generated"], "design_depth": mc["depth"], "design_config": desc,
                    "design_deviations_detected": devs})
    return vlib.verdict(ctx, mine, "fault_enumeration", cov, [
        "TLC and the Json community module; strace 6.x fault injection (a killed/failed system call is not executed)",
        "the projection reads the cache through its public API only; policy-private entry types (topology-aware 'allocations') are "
        "compared in their persisted JSON form",
        "several generations: the second-generation instance performs one saving operation before anything is read from it (IDs come from "
        "an earlier instance of the same file); the save after an interrupted save is the FIRST save of the restarted instance",
        "kill/error injection happens at system-call boundaries of the saving thread; writes cut short inside one write(2) are "
        "produced with RLIMIT_FSIZE; power loss (no fsync) is outside the property's 'process killed / write fails'",
        "creation times, pending-controller markers and the memoized pretty names are not persisted by design and are not compared",
    ], payload)
