"""Engine: the real resource manager (cache + policy back-end + NRI handlers) driven through its handlers.

Serves C01, C03 (topology-aware), C02 (balloons), C04, C05, C09, C12, C14 (both policies).
  1. design check: TLC exhaustively on the design spec that owns the property (MC_TopologyAware, MC_Balloons,
     MC_Pipeline, MC_MemAlloc) -- small constants
  2. drivers: seeded random request histories over generated machines x accepted configurations x container classes
     (consistent-runtime lifecycles; for C14 also events for unknown ids, duplicates, out-of-order), each followed by a
     drain (stop+remove everything) and a probe (a valid request that must still be served)
  3. replay on the real code (harness/cmd/l2drv), one trace line per request with the projected abstract state
  4. TLC validates the traces against Trace_L2 (predicates of Pipeline, TAPreds, BalloonPreds, MemOps)
  5. verdict from real-code traces only; known findings matched on (predicate, signature)
"""
import glob
import json
import os
import random

import vlib
from engines import l2gen, sideplug
from engines.memalloc import split_trace, validate_chunks

PROPS = ["C01", "C02", "C03", "C04", "C05", "C09", "C11", "C12", "C13", "C14"]

PREDS = {
    "C01": {"Inv_ExclDisjoint", "Inv_ExclNotInOthersTold", "Inv_ExclNotInPoolShared", "Inv_ToldWithinAllowed",
            "Inv_ReservedOnlyReservedClass"},
    "C03": {"Inv_SharedCapacity", "Inv_ReservedCapacity", "Inv_IsolatedAllOrNone", "Inv_SharedHasNoIsolated", "Inv_IsolatedOnlyByGrant",
            "Inv_NonEmptyCpuset",
            "Inv_GrantMatchesEligibility", "Inv_SharesEncoding", "Inv_LiveHoldsGrant"},
    "C02": {"Inv_BalloonsDisjoint", "Inv_BalloonsWithinAllowed", "Inv_FreeCpusAreUnowned", "Inv_OneBalloonPerCtr",
            "Inv_SharedIdleNotOwned", "Inv_MinMaxCpus", "Inv_MinMaxInstances", "Inv_NonEmptyHasCpus", "Inv_ToldIsCpusPlusShared",
            "Inv_SharedIdleCoversScope", "Inv_SharedIdleNotIsolated", "Inv_CpuClass"},
    "C04": {"Inv_MemsFollowAllocator", "Inv_MemsNonEmptyExisting", "Inv_NoZoneOvercommit"},
    "C05": {"Inv_RuntimeEqualsCache", "Inv_NothingPending", "Act_NoUpdateToDead", "Act_AtMostOneUpdatePerCtr",
            "Act_AdjustmentDescribesCreated"},
    "C09": {"Act_StoppedNeverHolds", "Inv_NoHolderWithoutContainer", "Inv_Quiescent", "Inv_QuiescentNoMemory"},
    "C12": {"Act_PreserveCpuNeverTold", "Act_PreserveMemNeverChanged"},
    "C14": {"Act_NoPanic", "Act_StillServes", "Act_Returns"},
    "C11": {"Act_SyncPurgesUnknown", "Act_SyncExactlyLiveHold"},
    "C13": {"Act_ReconfigSameIsNoop", "Act_RejectedIsNoop", "Act_RejectedLeavesNoTrace"},
}
# C11 / C13 additionally own every state-invariant violation INTRODUCED by a Synchronize/Restart resp. Reconfigure step
STATE_PREDS = set().union(*[PREDS[p] for p in ("C01", "C02", "C03", "C04", "C05", "C09")]) | {"Act_StoppedNeverHolds"}
OWN_EVENTS = {"C11": {"Sync", "Restart"}, "C13": {"Reconfigure"}}

DESIGN = {  # property -> (module, quick cfg, thorough cfg, description)
    "C01": ("MC_TopologyAware", "MC_TopologyAware_quick.cfg", "MC_TopologyAware.cfg", "TopologyAware on T1 (root + 2 NUMA pools, reserved + isolated CPU), 3 containers x 6 (quick) / 9 classes; allocate, release, update (release + re-allocate, may fail)"),
    "C03": ("MC_TopologyAware", "MC_TopologyAware_quick.cfg", "MC_TopologyAware.cfg", "TopologyAware on T1 (root + 2 NUMA pools, reserved + isolated CPU), 3 containers x 6 (quick) / 9 classes; allocate, release, update (release + re-allocate, may fail)"),
    "C09": ("MC_TopologyAware", "MC_TopologyAware_quick.cfg", "MC_TopologyAware.cfg", "TopologyAware on T1: Inv_Quiescent over every allocate/release interleaving (balloons: Balloons.tla Inv_Quiescent in C02's run)"),
    "C02": ("MC_Balloons", "MC_Balloons_quick.cfg", "MC_Balloons.cfg", "Balloons on 6 CPUs (3 hyperthread pairs) in 2 unequal packages, 3 balloon types (dynamic/package-sharing, capped hyperthread-hiding/system-sharing, pre-created), stored shared idle sets + told cpusets with step-wise re-pinning, 2 (quick) or 3 (thorough) containers x 3 request sizes"),
    "C05": ("MC_Pipeline", "MC_Pipeline_quick.cfg", "MC_Pipeline.cfg", "Pipeline: 1-2 pods x 2 containers, nondeterministic policy writes and failures, consistent runtime environment"),
    "C12": ("MC_Pipeline", "MC_Pipeline_events_quick.cfg", "MC_Pipeline_events.cfg", "Pipeline with policy events (cold start completion between requests: its change is pending until a draining request); the opt-out predicates are checked on real traces"),
    "C14": ("MC_Pipeline", "MC_Pipeline_C14_quick.cfg", "MC_Pipeline_C14.cfg", "Pipeline with the unconstrained environment (any event, any id, any order)"),
    "C04": ("MC_MemAlloc", "MC_MemAlloc_quick.cfg", "MC_MemAlloc_quick.cfg", "MemAlloc (libmem design) on 3-node layouts, at most 2 mutations per behaviour (the deeper configuration is explored by C06/C07's thorough tier)"),
    "C11": ("MC_Pipeline", "MC_Pipeline_quick.cfg", "MC_Pipeline.cfg", "Pipeline: Synchronize with arbitrary runtime lists (known containers take the runtime's state, unknown ones are purged) interleaved with all other requests"),
    "C13": ("MC_Pipeline", "MC_Pipeline_quick.cfg", "MC_Pipeline.cfg", "Pipeline: Reconfigure (policy writes, push of every pending change, failing update followed by the revert)"),
}


def policies_for(pid):
    both = os.environ.get("VERIF_L2_TA_ONLY", "") == ""
    return ["ta"] if pid in ("C01", "C03") else ["balloons"] if pid == "C02" else (["ta", "balloons"] if both else ["ta"])


# further design checks: (module, cfg, what TLC must report: None = pass, else the invariant/property that must be violated)
DESIGN_EXTRA = {
    "C09": [("MC_BalloonsReconf", "MC_BalloonsReconf_none.cfg", None),
            ("MC_BalloonsReconf", "MC_BalloonsReconf_leak_balloonless.cfg", "Inv_StoppedHoldsNothing"),     # F-C09-5 shape
            ("MC_BalloonsReconf", "MC_BalloonsReconf_readmit_exited.cfg", "Inv_StoppedHoldsNothing"),       # F-C09-1 shape
            ("MC_BalloonsReconf", "MC_BalloonsReconf_reach.cfg", "Goal_BalloonlessAlive")],                 # reachability
    # a failing CreateContainer/UpdateContainer pushes what it changed for other containers; the behaviour before the
    # repair of F-C05-1/2 (return without draining) is refuted by TLC
    "C05": [("MC_Pipeline", "MC_Pipeline_noflush.cfg", "Inv_FailedRequestFlushes")],
    # CPU classes at design level: a creation undone after newBalloon must return the CPUs with the idle class (F-C02-3)
    "C02": [("MC_Balloons", "MC_Balloons_undoclass.cfg", "Inv_CpuClass"),
            # idle-CPU sharing is STORED per balloon and maintained incrementally; only balloons whose stored set changed are
            # re-pinned.  Must be refuted: deleting a balloon without re-sharing its CPUs (F-C02-2 shape), re-pinning only the
            # resized balloon, inflating without sharing the idle CPUs of the scope the balloon grew into
            ("MC_Balloons", "MC_Balloons_delete_no_reshare.cfg", "Inv_SharedIdleCoversScope"),
            ("MC_Balloons", "MC_Balloons_repin_self_only.cfg", "Inv_ToldIsCpusPlusShared"),
            ("MC_Balloons", "MC_Balloons_inflate_adds_nothing.cfg", "Inv_SharedIdleCoversScope")],
    "C13": [("MC_BalloonsReconf", "MC_BalloonsReconf_none.cfg", None),
            ("MC_TopologyAware", "MC_TopologyAware_quick.cfg", None),
            ("MC_TopologyAware", "MC_TopologyAware_strictreserve.cfg", "Inv_ReinstateAnyOrder"),
            ("MC_TopologyAware", "MC_TopologyAware_starvedreinstate.cfg", "Inv_ReinstateAlways")],
    # restart + Synchronize with a cache persisted only at some points of some requests: the design passes, the defect
    # F-C11-1 and the two independently seeded C11 changes are refuted by TLC, the hard situations are reachable
    "C11": [("Recovery", "MC_Recovery_none.cfg", None),
            ("Recovery", "MC_Recovery_keep_cached_state.cfg", "Inv_ExactlyLiveHold"),
            ("Recovery", "MC_Recovery_skip_creating.cfg", "Inv_ExactlyLiveHold"),
            ("Recovery", "MC_Recovery_skip_same_value.cfg", "Inv_RuntimeEqualsCache"),
            ("Recovery", "MC_Recovery_reach1.cfg", "Goal_MidRequestCrash"),
            ("Recovery", "MC_Recovery_reach2.cfg", "Goal_StaleRunning")],
    # F-C05-1 at design level: the strict statement "every live container holds a grant" must be refuted by TLC
    "C03": [("MC_TopologyAware", "MC_TopologyAware_dropped.cfg", "Inv_LiveHoldsGrantStrict")],
    # re-instating grants after a (re)configuration succeeds in EVERY order unless a pool is starved (checked as an invariant
    # of the main configuration); with a starved pool some order fails (F-C05-5), and with a strict admission test in
    # Reserve (seeded change C13-m2) some order fails even without: both must be refuted by TLC
}


def design_extras(ctx, pid):
    """Design specs beyond the one in DESIGN[pid]: the code-as-it-is configuration must pass, each named deviation (a defect
    class found on the real code) and each reachability goal must be reported by TLC -- a miss means the model lost its
    teeth and makes the run inconclusive."""
    out = []
    todo = list(DESIGN_EXTRA.get(pid, []))
    if not ctx.quick and pid in ("C09", "C13"):
        todo.append(("MC_BalloonsReconf", "MC_BalloonsReconf_big.cfg", None))
    if not ctx.quick and pid == "C11":
        todo.append(("Recovery", "MC_Recovery_big.cfg", None))        # 3 containers: 18 M distinct states, ~4 min
    for i, (mod, cfg, must) in enumerate(todo):
        r = vlib.tlc(mod, cfg, ctx.path("mcx%d" % i), workers=4 if ctx.quick else vlib.NCPU, timeout=600 if ctx.quick else 2400)
        if must is None and not r["ok"]:
            raise vlib.Inconclusive("design model check %s did not pass: violated=%s error=%s\n%s" % (cfg, r["violated"], r["error"], r["out"][-2000:]))
        if must is not None and r["violated"] != must:
            raise vlib.Inconclusive("design model check %s: TLC must report %s, got violated=%s error=%s" % (cfg, must, r["violated"], r["error"]))
        out.append({"config": cfg, "expect": must or "pass", "distinct": r.get("distinct"), "generated": r.get("generated")})
    return out


def regress_histories(pid):
    """Histories kept from earlier findings (/verif/regress/<pid>/*.json): replayed in every run, so that a repaired
    defect is reported again if it ever returns."""
    out = []
    for f in sorted(glob.glob(os.path.join(vlib.ROOT, "regress", pid, "*.json"))):
        for h in json.load(open(f)).get("histories", []):
            h = dict(h)
            h.pop("twin", None)
            out.append(h)
    return out


def gen_histories(ctx, binp, pid):
    return _gen_histories(ctx, binp, pid) + regress_histories(pid)


def _gen_histories(ctx, binp, pid):
    rnd = random.Random(ctx.seed * 7919 + sum(map(ord, pid)))
    ms = l2gen.machines(binp)
    q = ctx.quick
    nworld, per_world, nops = (24, 5, 30) if q else (160, 12, 45)
    if pid == "C02":            # balloons histories are cheap: more worlds
        nworld, per_world, nops = (60, 5, 32) if q else (300, 12, 45)
    hs = []
    pols = policies_for(pid)
    worlds = []
    if "ta" in pols:
        worlds += l2gen.ta_worlds(ms, rnd, nworld if len(pols) == 1 else nworld // 2)
    if "balloons" in pols:
        worlds += l2gen.balloons_worlds(ms, rnd, nworld if len(pols) == 1 else nworld // 2)
    if pid == "C11":
        return [l2gen.restart_history(w, rnd, nops) for w in worlds for _ in range(per_world)]
    if pid == "C13":
        hs = []
        for w in worlds:
            for _ in range(max(1, per_world // 2)):
                hs += l2gen.reconf_histories(w, rnd, nops)
            if w["policy"] == "ta":
                for k in range(3):
                    hs.append(l2gen.fill_history(w, rnd, nops + 10, reconf=0.2, topup=k > 0))
        return hs
    for w in worlds:
        for j in range(per_world):
            disorder = 0.0
            if pid == "C14":
                disorder = 0.25 if j % 2 == 0 else 0.08
            if pid in ("C04", "C05", "C09", "C12") and j % 3 == 1:
                hs.append(l2gen.memfill_history(w, rnd, nops + 10))      # memory pressure (both policies)
                if pid != "C04":
                    continue
            if pid in ("C01", "C03", "C09") and w["policy"] == "ta" and j % 3 == 2:
                hs.append(l2gen.fill_history(w, rnd, nops + 10, topup=rnd.random() < 0.5))
                continue
            # valid configuration changes in the middle of histories (C09 compares with the pristine state of the
            # configuration in force: known again once a configuration is applied with nothing alive)
            if pid in ("C04", "C12") and l2gen.cold_ok_world(w):
                # cold start histories: most pods start on PMEM only, some of them opted out of memory pinning
                for _ in range(3 if pid == "C12" else 1):
                    hs.append(l2gen.lifecycle_history(w, rnd, nops + 15, cold_bias=True))
            rc = l2gen.valid_configs(w, rnd) if pid in ("C01", "C03", "C04", "C05", "C09", "C12") else None
            if pid == "C12" and j % 2 == 0:
                rc = l2gen.pin_configs(w, rnd)          # pinning switches only (and back)
            hs.append(l2gen.lifecycle_history(w, rnd, nops, disorder=disorder, fuzz=0.6 if pid == "C14" else 0.0, reconf_cfgs=rc,
                                              reconf_bias=(pid == "C12" and j % 2 == 0),
                                              stale_first=(pid in ("C09", "C13", "C05") and j == 0)))
    return hs


def stats(trace_path):
    st = {"events": 0, "histories": 0, "worlds": set(), "create_ok": 0, "create_failed": 0, "updates_in_replies": 0,
          "multi_update_replies": 0, "pushed_batches": 0, "update_ok": 0, "update_failed": 0, "stop": 0, "sync": 0, "reconfigure_ok": 0, "cold_start_done": 0,
          "excl_grants": 0, "isolated_grants": 0, "reserved_grants": 0, "mixed_grants": 0, "preserve_cpu": 0, "preserve_mem": 0,
          "restarts": 0, "restarts_mid": 0, "sync_gone": 0, "sync_new": 0, "sync_state_changed": 0, "reconfigure_same": 0, "reconfigure_rejected": 0,
          "reconfigure_changed": 0, "twin_compared": 0,
          "zone_moves": 0, "balloons_created": 0, "balloons_deleted": 0, "shared_idle": 0, "panics": 0, "probes_ok": 0, "quiescent_points": 0, "states": set(), "boot_errors": 0}
    prev_ctrs = None
    for l in open(trace_path):
        e = json.loads(l)
        if e["ev"] == "reset":
            prev_ctrs = {}
            st["histories"] += 1
            st.pop("_prev_balloons", None)
            st.pop("_prev_mems", None)
            if "booterr" in e:
                st["boot_errors"] += 1
            else:
                st["worlds"].add(e["world"].get("name", ""))
            continue
        st["events"] += 1
        if e.get("hang"):
            continue
        ok = not e["err"] and not e["panic"]
        st["panics"] += 1 if e["panic"] else 0
        ev = e["ev"]
        if ev == "Create":
            st["create_ok" if ok else "create_failed"] += 1
        if ev == "Update":
            st["update_ok" if ok else "update_failed"] += 1
        if ev == "Stop":
            st["stop"] += 1
        if ev == "ColdDone" and ok:
            st["cold_start_done"] += 1
        if ev == "Sync":
            st["sync"] += 1
        if ev == "Reconfigure" and ok:
            st["reconfigure_ok"] += 1
            st["reconfigure_same" if e.get("same") else "reconfigure_changed"] += 1
        if ev == "Reconfigure" and e["err"]:
            st["reconfigure_rejected"] += 1
        if ev == "Restart":
            st["restarts"] += 1
            st["restarts_mid"] += 1 if e.get("mid") else 0
        if "tw" in e:
            st["twin_compared"] += 1
        if ev == "Sync" and prev_ctrs is not None:
            rt = e.get("rtctrs", {})
            st["sync_gone"] += 1 if any(c not in rt for c in prev_ctrs) else 0
            st["sync_new"] += 1 if any(c not in prev_ctrs for c in rt) else 0
            st["sync_state_changed"] += 1 if any(c in rt and ((rt[c] == "stopped") != (prev_ctrs[c] == "exited")) for c in prev_ctrs) else 0
        if e.get("tag") == "probe" and ok:
            st["probes_ok"] += 1
        n = len(e.get("upd", []))
        st["updates_in_replies"] += n
        st["multi_update_replies"] += 1 if n > 1 else 0
        st["pushed_batches"] += len(e.get("pushed", []))
        s = e.get("st")
        if s:
            # memory zones of OTHER containers moved by this request (widening under pressure, narrowing after a release)
            pm = st.get("_prev_mems") or {}
            st["zone_moves"] += sum(1 for c, v in s["ctr"].items() if c != e.get("c") and c in pm and v["mems"] and pm[c]
                                    and v["mems"] != pm[c] and v["st"] in ("created", "running"))
            st["_prev_mems"] = {c: v["mems"] for c, v in s["ctr"].items()}
            prev_ctrs = {c: v["st"] for c, v in s["ctr"].items()}
            pol = s.get("pol") or {}
            gr = pol.get("grants") or []
            if ev == "Create" and ok:
                for g in gr:
                    if g["c"] == e.get("c"):
                        st["excl_grants"] += 1 if g["excl"] else 0
                        st["isolated_grants"] += 1 if g["isol"] else 0
                        st["reserved_grants"] += 1 if g["ctype"] == "reserved" else 0
                        st["mixed_grants"] += 1 if g["excl"] and g["portion"] > 0 else 0
                c = s["ctr"].get(e.get("c"))
                if c:
                    st["preserve_cpu"] += 1 if c["pcpu"] else 0
                    st["preserve_mem"] += 1 if c["pmem"] else 0
            bl = pol.get("balloons")
            if bl is not None:
                names = {b["name"] for b in bl}
                prev = st.get("_prev_balloons")
                if prev is not None:
                    st["balloons_created"] += len(names - prev)
                    st["balloons_deleted"] += len(prev - names)
                st["_prev_balloons"] = names
                st["shared_idle"] += 1 if any(b["shared"] for b in bl) else 0
            if not any(c["st"] in ("creating", "created", "running") for c in s["ctr"].values()):
                st["quiescent_points"] += 1
            key = json.dumps([sorted((g["c"], g["pool"], tuple(g["excl"]), g["portion"]) for g in gr),
                              sorted((c, v["st"], tuple(v["cpus"]), tuple(v["mems"])) for c, v in s["ctr"].items()),
                              [(b["name"], b["cpus"], b["ctrs"]) for b in (pol.get("balloons") or [])]])
            st["states"].add(hash(key))
    st.pop("_prev_balloons", None)
    st.pop("_prev_mems", None)
    st["worlds"] = len(st["worlds"])
    st["distinct_states"] = len(st.pop("states"))
    return st


NEED = {
    "C01": ["excl_grants", "reserved_grants", "mixed_grants", "updates_in_replies"],
    "C03": ["excl_grants", "reserved_grants", "mixed_grants", "create_failed"],
    "C02": ["create_ok", "create_failed", "updates_in_replies", "stop", "balloons_created", "balloons_deleted", "shared_idle"],
    "C04": ["create_ok", "updates_in_replies", "zone_moves"],
    "C05": ["create_ok", "create_failed", "updates_in_replies", "multi_update_replies", "pushed_batches", "update_ok", "stop", "sync"],
    "C09": ["quiescent_points", "create_failed", "stop"],
    "C12": ["preserve_cpu", "preserve_mem", "updates_in_replies", "cold_start_done"],
    "C14": ["probes_ok", "create_failed"],
    "C11": ["restarts", "restarts_mid", "sync", "create_ok", "sync_gone", "sync_new", "sync_state_changed"],
    "C13": ["reconfigure_ok", "reconfigure_same", "reconfigure_rejected", "reconfigure_changed", "twin_compared"],
}


def history_of(trace_path, h):
    """Rebuild the request history with index h from the trace (for the replay file)."""
    world, ops = None, []
    for l in open(trace_path):
        e = json.loads(l)
        if e.get("h") != h:
            continue
        if e["ev"] == "reset":
            world = e["world"]
            continue
        o = {"op": e["ev"]}
        for a, b in (("pod", "pod"), ("c", "c"), ("pods", "pods"), ("ctrspec", "ctr"), ("rtpods", "pods_list"), ("rtctrs", "ctrs"),
                     ("config", "config"), ("tag", "tag")):
            if a in e:
                o[b] = e[a]
        ops.append(o)
    return {"world": world, "ops": ops, "consistent": True}


def run(ctx):
    pid = ctx.pid
    binp = vlib.build_harness(cmd="l2drv")

    if ctx.replay:
        rp = json.load(open(ctx.replay))
        hs = rp["replay"]["histories"]
        tp = l2gen.run_histories(binp, hs, ctx.path("replay"), shards=1)
        r = vlib.validate_trace("Trace_L2", "Trace_L2.cfg", tp, ctx.path("tv-replay"), timeout=600)
        vs = [v for v in r["viols"] if v["pred"] in PREDS[pid]]
        if pid == "C14" and rp["replay"].get("side"):       # side plugins (memory-qos, memtierd, sgx-epc): engines/sideplug.py
            vs += sideplug.run_side(ctx, rp["replay"]["side"])[0]
        for v in vs:
            print("replayed violation:", json.dumps(v))
        return vlib.verdict(ctx, vs, "model_checking", {"states": 1, "transitions": 1, "traces_validated_against_impl": len(hs),
                                                         "samples": hs[:1]}, ["replay"], {"histories": hs})

    # 1. design check
    mod, qcfg, tcfg, desc = DESIGN[pid]
    cfg = qcfg if ctx.quick else tcfg
    mc = vlib.tlc(mod, cfg, ctx.path("mc"), workers=vlib.NCPU, timeout=600 if ctx.quick else 3600)
    if not mc["ok"]:
        raise vlib.Inconclusive("design model check did not pass: violated=%s error=%s\n%s" % (mc["violated"], mc["error"], mc["out"][-3000:]))

    extra_design = design_extras(ctx, pid)

    # 2./3. drivers + replay on the real code
    hs = gen_histories(ctx, binp, pid)
    tp = l2gen.run_histories(binp, hs, ctx.path("run"), timeout=1200 if ctx.quick else 3000)
    if pid == "C13":
        l2gen.annotate_twins(tp, hs)

    # 4. trace validation
    files, nhist, nlines = split_trace(tp, 8 if ctx.quick else 32, ctx.out)
    results = validate_chunks("Trace_L2", "Trace_L2.cfg", files, ctx.out, 900 if ctx.quick else 3000)
    viols, consumed = [], 0
    for fp, r in zip(files, results):
        if r["consumed"] is None or r["consumed"] != r["total"]:
            raise vlib.Inconclusive("trace validation did not consume %s (%s of %s): %s\n%s" % (
                fp, r["consumed"], r["total"], r["res"]["error"], r["res"]["out"][-3000:]))
        consumed += r["consumed"]
        viols += r["viols"]
    mine = [v for v in viols if v["pred"] in PREDS[pid]]
    if pid in OWN_EVENTS:
        mine += [v for v in viols if v["pred"] in STATE_PREDS and v["ev"] in OWN_EVENTS[pid]]
    drift = sum(1 for v in viols if v["pred"].startswith("Drift_"))

    st = stats(tp)
    empty = [k for k in NEED[pid] if st[k] == 0]
    if empty:
        raise vlib.Inconclusive("drivers never exercised: %s (stats %s)" % (empty, st))

    payload = None
    if mine:
        hidx = []
        for v in mine:
            if v["h"] not in hidx:
                hidx.append(v["h"])
        payload = {"histories": [history_of(tp, h) for h in hidx[:3]]}

    sample = []
    for l in open(tp):
        e = json.loads(l)
        if e["ev"] == "Create" and not e["err"]:
            e.pop("st", None)
            sample.append(e)
            break
    cov = {"states": mc["distinct"], "transitions": mc["generated"], "design_depth": mc["depth"], "design_config": desc,
           "traces_validated_against_impl": nhist, "trace_events": consumed, "evaluations": consumed,
           "distinct_nontrivial": st["distinct_states"],
           "rule": "one evaluation = one NRI request served by the real resource manager whose reply and projected state were "
                   "checked by TLC against the %s predicates; distinct = distinct (grants/balloons, per-container state+pinning) "
                   "abstract states reached by the real code" % pid,
           "exercised": {k: v for k, v in st.items() if k != "distinct_states"}, "predicates": sorted(PREDS[pid]),
           "drift_steps": drift, "samples": sample or [{"note": "no successful create in trace"}], "exhaustive": False}
    if extra_design:
        cov["design_extra"] = extra_design
    if pid == "C04":    # the allocator's replies are what the policies pin to: reply = assignment on the real libmem (engines/memalloc.py)
        from engines import memalloc
        cv, cov["libmem_returned_zone"] = memalloc.returned_zone_check(ctx)
        mine = mine + cv
    if pid == "C14":    # event sequences on the side plugins (memory-qos, memtierd, sgx-epc): engines/sideplug.py
        sv, cov["side_plugins"] = sideplug.run_side(ctx)
        mine = mine + sv
        if sv:
            payload = dict(payload or {"histories": []}, side=ctx.side_replay)
    return vlib.verdict(ctx, mine, "model_checking", cov,
                        ["TLC and the Json community module", "the harness projects state through cache getters and the read-only "
                         "verif snapshot accessors of the policies", "the runtime view is folded by the trace spec from the replies "
                         "(empty strings = not set, NRI semantics)", "memory amounts are logged in MiB"], payload)
