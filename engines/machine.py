"""Engine: C16 -- hardware discovery is faithful and the topology-aware pool tree is well-formed on every machine.

1. design check: TLC on MC_Machine -- the predicates of spec/Machine.tla are evaluated on three hand-written machines
   and EVERY available/reserved setting over them (identity discovery satisfies the fidelity predicates, the tree the
   property describes satisfies the pool-tree predicates, hand-made faults are flagged)
2. driver: harness/cmd/machinedrv -- builtin + seeded random irregular machines (harness/internal/sysgen) x a handful
   of available/reserved settings; writes the sysfs tree, runs the REAL pkg/sysfs discovery and the REAL topology-aware
   Setup, logs every accessor / the pool tree next to the description (sharded over processes)
3. trace validation: TLC on Trace_Machine evaluates the predicates of Machine.tla on every record
4. domain coverage + vacuity guard, verdict from real-code records only; known findings matched by (pred, sig)
"""
import concurrent.futures as cf
import json
import os
import re
import shutil
import time

import vlib

PROPS = ["C16"]

FEATURES = ["multi_socket", "multi_die", "snc", "pmem", "hbm", "memless_cpu", "offline", "isolated", "ht", "no_ht",
            "tied_closest", "movable_only"]


def drive_and_validate(binp, ctx, shard, shards, machines, seed, timeout):
    tp = ctx.path("trace-%02d.ndjson" % shard)
    scr = os.path.join(ctx.out, "scratch-%02d" % shard)
    rc, out = vlib.sh([binp, "--out", tp, "--scratch", scr, "--machines", str(machines), "--seed", str(seed),
                       "--shard", str(shard), "--shards", str(shards)], timeout=timeout)
    shutil.rmtree(scr, ignore_errors=True)
    if rc != 0:
        raise vlib.Inconclusive("machinedrv shard %d failed rc=%d: %s" % (shard, rc, out[-2000:]))
    r = vlib.validate_trace("Trace_Machine", "Trace_Machine.cfg", tp, os.path.join(ctx.out, "tv-%02d" % shard), timeout=timeout, heap="2g")
    return tp, r


def judged_counts(res):
    m = re.search(r'JUDGED (\d+) (\d+) (\d+)', res["out"])
    return tuple(int(x) for x in m.groups()) if m else None


def trace_stats(paths):
    """What the real-code traces exercised (vacuity guard) and the recorded domain (coverage check)."""
    st = {"machines": 0, "settings": 0, "ok": 0, "rejected": 0, "excluded": 0, "other": 0,
          "ok_rsv_cpuset": 0, "ok_rsv_quantity": 0, "ok_avail_cpuset": 0, "ok_avail_default": 0,
          "kinds": {}, "pools_max": 0, "cpus_max": 0, "nodes_max": 0}
    feat = {k: 0 for k in FEATURES}
    mis, nset, seen, distinct, bad = set(), {}, {}, set(), []
    samples = []
    cur = None
    for p in paths:
        for line in open(p):
            e = json.loads(line)
            if e["ev"] == "machine":
                st["machines"] += 1
                if e["mi"] in mis:
                    bad.append("machine %d recorded twice" % e["mi"])
                mis.add(e["mi"])
                nset[e["mi"]] = e["nset"]
                seen[e["mi"]] = 0
                cur = e
                cur["_okset"] = 0
                if e.get("res") != "ok":
                    # a discovery that fails, panics or hangs on a valid description is judged by the trace spec
                    # (Fid_Accepted); only a generator problem makes the run unusable
                    nset[e["mi"]] = 0
                    st["discovery_failed"] = st.get("discovery_failed", 0) + 1
                    if e.get("res") == "generator-error":
                        bad.append("machine %s: %s %s" % (e["name"], e.get("res"), e.get("err")))
                continue
            st["settings"] += 1
            seen[e["mi"]] = seen.get(e["mi"], 0) + 1
            res = e["res"]
            k = "%s/%s" % (e["cfg"]["kind"], res)
            st["kinds"][k] = st["kinds"].get(k, 0) + 1
            if res == "ok":
                st["ok"] += 1
                st["ok_rsv_" + e["cfg"]["rsvkind"]] += 1
                st["ok_avail_" + ("cpuset" if e["cfg"]["availset"] else "default")] += 1
                st["pools_max"] = max(st["pools_max"], len(e["snap"]["pools"]))
                distinct.add(json.dumps([cur["flat"], e["cfg"]], sort_keys=True))
                if cur["_okset"] == 0:
                    f = cur["feat"]
                    st["cpus_max"], st["nodes_max"] = max(st["cpus_max"], f["cpus"]), max(st["nodes_max"], f["nodes"])
                    for name, on in (("multi_socket", f["packages"] > 1), ("multi_die", f["multi_die"]), ("snc", f["snc"]),
                                     ("pmem", f["pmem"] > 0), ("hbm", f["hbm"] > 0), ("memless_cpu", f["memless_cpu"] > 0),
                                     ("offline", f["offline"] > 0), ("isolated", f["isolated"] > 0), ("ht", f["ht"]),
                                     ("no_ht", f["no_ht"]), ("tied_closest", f["tied_closest"]), ("movable_only", f["movable"] > 0)):
                        if on:
                            feat[name] += 1
                cur["_okset"] += 1
                if len(samples) < 2:
                    samples.append({"machine": cur["m"], "cfg": e["cfg"], "pools": e["snap"]["pools"]})
            elif res in ("rejected", "excluded"):
                st[res] += 1
            else:
                st["other"] += 1
                if res == "harness-error":
                    bad.append("setup %s/%d: %s %s" % (e["name"], e["si"], res, e.get("err")))
    for mi, n in nset.items():
        if seen.get(mi, 0) != n:
            bad.append("machine %d: %d of %d setting records" % (mi, seen.get(mi, 0), n))
    st["features"] = feat
    return st, mis, distinct, samples, bad


def cases_of(paths, mis):
    """Rebuild the replayable cases (machine description + settings) of the given machine indexes from the traces."""
    cases, cur = {}, None
    for p in paths:
        for line in open(p):
            e = json.loads(line)
            if e["mi"] not in mis:
                continue
            if e["ev"] == "machine":
                cases[e["mi"]] = {"machine": e["m"], "settings": []}
            else:
                cases[e["mi"]]["settings"].append(e["cfg"])
    return [cases[k] for k in sorted(cases)]


def design_check(ctx):
    cfg = open(os.path.join(vlib.SPEC, "MC_Machine.cfg")).read()
    if ctx.quick:
        cfg = cfg.replace("MaxDropped = 8", "MaxDropped = 2")
    cfgp = ctx.path("MC_Machine.cfg")
    open(cfgp, "w").write(cfg)
    mc = vlib.tlc("MC_Machine", cfgp, os.path.join(ctx.out, "mc"), workers=max(2, vlib.NCPU // 2), timeout=600)
    if not mc["ok"]:
        raise vlib.Inconclusive("design model check did not pass: violated=%s error=%s\n%s" %
                                (mc["violated"], mc["error"], mc["out"][-3000:]))
    return mc


def run(ctx):
    q = ctx.quick
    binp = vlib.build_harness(cmd="machinedrv")
    vlib.log("C16: harness built at %.0fs" % (time.time() - ctx.t0))

    if ctx.replay:
        rp = json.load(open(ctx.replay))
        cases = rp["replay"]["cases"]
        sp = ctx.path("replay-cases.json")
        json.dump(cases, open(sp, "w"))
        tp = ctx.path("replay.ndjson")
        scr = os.path.join(ctx.out, "scratch-replay")
        vlib.sh([binp, "--out", tp, "--scratch", scr, "--replay", sp], timeout=300, check=True)
        shutil.rmtree(scr, ignore_errors=True)
        r = vlib.validate_trace("Trace_Machine", "Trace_Machine.cfg", tp, os.path.join(ctx.out, "tv-replay"), timeout=600)
        if r["consumed"] != r["total"]:
            raise vlib.Inconclusive("replay trace not consumed: %s\n%s" % (r["res"]["error"], r["res"]["out"][-2000:]))
        vs = [v for v in r["viols"] if v["pred"] != "Trace"]
        for v in vs:
            print("replayed violation:", json.dumps(v))
        return vlib.verdict(ctx, vs, "model_checking", {"states": 1, "transitions": 1, "traces_validated_against_impl": len(cases),
                                                         "samples": cases[:1]}, ["replay"], {"cases": cases})

    nmach = 300 if q else 5000
    shards = min(vlib.NCPU, 12 if q else 16)
    with cf.ThreadPoolExecutor(max_workers=shards + 1) as ex:
        fmc = ex.submit(design_check, ctx)                                         # 1. design check (concurrently)
        futs = [ex.submit(drive_and_validate, binp, ctx, s, shards, nmach, ctx.seed, 400 if q else 1500)
                for s in range(shards)]                                            # 2./3. drive + validate per shard
        results = [f.result() for f in futs]
        vlib.log("C16: %d shards driven and validated at %.0fs" % (shards, time.time() - ctx.t0))
        mc = fmc.result()
        vlib.log("C16: design check done at %.0fs (%.0fs)" % (time.time() - ctx.t0, mc["wall_s"]))

    paths = [tp for tp, _ in results]
    viols, consumed, jm, js, jn = [], 0, 0, 0, 0
    for tp, r in results:
        if r["consumed"] is None or r["consumed"] != r["total"]:
            raise vlib.Inconclusive("trace validation did not consume %s (%s of %s): %s\n%s" % (
                tp, r["consumed"], r["total"], r["res"]["error"], r["res"]["out"][-2500:]))
        consumed += r["consumed"]
        j = judged_counts(r["res"])
        if j is None:
            raise vlib.Inconclusive("trace validation of %s printed no JUDGED line" % tp)
        jm, js, jn = jm + j[0], js + j[1], jn + j[2]
        for v in r["viols"]:
            v["trace"] = os.path.basename(tp)
            viols.append(v)

    # 4. domain coverage and vacuity guard -------------------------------------------------------------
    st, mis, distinct, samples, bad = trace_stats(paths)
    out = vlib.sh([binp, "--count-only", "--machines", "0"], timeout=60, check=True)[1]
    m = re.search(r"COUNT (\d+)", out)
    if not m:
        raise vlib.Inconclusive("machinedrv --count-only printed no COUNT: %s" % out[-500:])
    nb = int(m.group(1))
    total = nb + nmach
    trace_viol = [v for v in viols if v["pred"] == "Trace"]
    if bad or trace_viol:
        raise vlib.Inconclusive("the driver did not produce a usable record for every case: %s %s" % (bad[:5], trace_viol[:3]))
    if mis != set(range(total)):
        raise vlib.Inconclusive("domain not covered: %d of %d machines recorded (missing e.g. %s)" % (
            len(mis), total, sorted(set(range(total)) - mis)[:5]))
    if jm != total or js + jn != st["settings"] or js != st["ok"] + st["other"]:
        raise vlib.Inconclusive("TLC judged %d machines / %d settings (+%d not judged); the traces hold %d machines, %d accepted of %d settings"
                                % (jm, js, jn, total, st["ok"] + st["other"], st["settings"]))
    need = dict(st["features"])
    need.update({k: st[k] for k in ("ok_rsv_cpuset", "ok_rsv_quantity", "ok_avail_cpuset", "ok_avail_default", "rejected", "excluded")})
    vacuity = ["never exercised: %s" % k for k, n in sorted(need.items()) if n == 0]
    if st["kinds"].get("default-qty/ok", 0) < 0.9 * total:
        vacuity.append("the policy accepted the default setting on only %d of %d machines" % (st["kinds"].get("default-qty/ok", 0), total))
    kfs = vlib.load_known_findings()
    fresh = [v for v in viols if not vlib.match_kf(kfs, ctx.pid, v)]
    if vacuity and not fresh:
        # a run that exercised too little cannot say "held"; a violation observed on real records stands on its own
        raise vlib.Inconclusive("vacuity guard: %s" % "; ".join(vacuity))

    payload = None
    if viols:
        pick = {}
        for v in (fresh or viols):                      # two machines per kind of violation
            ms = pick.setdefault((v["pred"], v["sig"]), [])
            if v["mi"] not in ms and len(ms) < 2:
                ms.append(v["mi"])
        payload = {"cases": cases_of(paths, {mi for ms in list(pick.values())[:10] for mi in ms})}

    cov = {"states": mc["distinct"], "transitions": mc["generated"], "design_depth": mc["depth"],
           "design_config": "MC_Machine: 3 hand-written machines (PMEM + isolated CPU; 2 sockets with dies, SNC, memory-less node, offline CPU, "
                            "tied HBM; single node) x every available cpuset%s x every 1-2 CPU reservation, cpuset and quantity; "
                            "identity discovery, constructed tree and 13 hand-made faults evaluated in every state" % (" that leaves out at most 2 CPUs" if q else ""),
           "traces_validated_against_impl": total, "trace_events": consumed,
           "machines": total, "builtin_machines": nb, "random_machines": nmach,
           "settings_recorded": st["settings"], "settings_judged": js, "settings_rejected_by_policy": st["rejected"],
           "settings_excluded_by_quantifier": st["excluded"],
           "evaluations": jm + js, "distinct_nontrivial": len(distinct),
           "rule": "one evaluation = one machine whose real discovery was compared with its description (21 fidelity predicates) or one "
                   "accepted available/reserved setting whose real pool tree was checked (20 pool-tree predicates) by TLC; distinct = "
                   "distinct (machine description, setting) pairs with an accepted setup",
           "vacuity_warnings": vacuity,
           "exercised": {k: st[k] for k in st if k not in ("kinds",)}, "setting_kinds": st["kinds"],
           "predicates": ["Fid_Accepted", "Fid_CPUIds", "Fid_CPUSets", "Fid_CPUTopology", "Fid_Nodes", "Fid_Caches", "Fid_Packages",
                          "Tree_Exists", "Tree_SingleRoot", "Tree_Shape", "Tree_SiblingsDisjoint", "Tree_ChildWithinParent",
                          "Tree_RootHoldsAvailable", "Split_Disjoint", "Mem_RootHasAll", "Mem_ChildSubset", "Mem_Types", "Mem_SpecialAttach"],
           "samples": samples, "exhaustive": False,
           "level_note": "Machine.tla is a functional specification (no behaviour); the design check exercises its predicates on small machines, "
                         "the verdict comes from the function graph of the real discovery and the real Setup over generated machines. The "
                         "fidelity half is a round trip through a sysfs generator written for this check (harness/internal/sysgen)."}
    for f in os.listdir(ctx.out):
        if f.startswith("trace-") and not fresh and not q:
            os.remove(os.path.join(ctx.out, f))
    return vlib.verdict(ctx, [v for v in viols if v["pred"] != "Trace"], "model_checking", cov,
                        ["TLC and the Json community module",
                         "the machine descriptions are rendered to sysfs by harness/internal/sysgen exactly as a Linux kernel shows them "
                         "(offline CPUs without topology/cache directories, sibling and node CPU lists of online CPUs only)",
                         "an available cpuset names online CPUs only; node ids and CPU ids are 0..n-1; distances are symmetric",
                         "pool names follow 'root', 'socket #P', 'die #P/D', 'NUMA node #N' (the names exported as topology zones)",
                         "the pool tree is read through VerifSnapshot (build tag verif) right after Setup"], payload)
