"""Engine: configuration precedence of the agent (C17) -- spec Agent.tla, real code pkg/agent/agent.go.

1. design check: TLC exhaustively on MC_Agent (2 uids x 3 generations x valid/invalid per watch, every
   event type, notify errors): the five property predicates + mechanism facts; the same run dumps the
   complete (finite, VIEW = last delivered) state graph, one line per edge.
2. drivers, all replayed on the REAL Agent through the verif hooks (harness/cmd/agentdrv):
   (a) a transition tour that takes EVERY edge of the dumped graph at least once,
   (b) every event sequence up to depth k over the put/delete alphabet (independent of the spec's
       state abstraction), (c) seeded random long sequences over a wider alphabet.
3. trace validation: TLC on Trace_Agent evaluates the five predicates on every recorded step and demands
   that every step is the specification's step (Agent is deterministic: "Next" is verdict-bearing).
4. verdict from real-code traces only; vacuity guard; known findings matched by (pred, sig).
"""
import concurrent.futures as cf
import itertools
import json
import os
import random
import re
from collections import deque

import vlib

PROPS = ["C17"]

PREDS = ["Inv_LastDeliveredIsEffective", "Act_GroupNeverOverridesNode", "Act_DeleteFallsBack", "Act_NoRedelivery",
         "Act_InvalidNeverDelivered", "Next"]
NONE = ("none", "-", -1, False)
PUT = ("Added", "Modified")
GOOD_FLAVORS = ["balloons", "topology-aware", "template"]
BAD_FLAVORS = ["bad-op", "bad-values", "bad-key", "bad-preserve"]
SEGMENT = 4000          # events per tour history (a fresh Agent each)
MAXCHUNK = 40000        # trace lines per TLC trace-validation run (ndJsonDeserialize keeps the file in memory)


def ctup(c):
    return (c["kind"], c["uid"], c["gen"], c["valid"])


def cdict(t):
    return {"kind": t[0], "uid": t[1], "gen": t[2], "valid": t[3]}


def etup(e):
    return (e["s"], e["typ"], ctup(e["o"]), e["nerr"])


def env_ok(rcv, e):
    """Agent.tla EnvOK: same UID+generation (not 0) as the object the watch showed last => same validity."""
    s, typ, o, _ = e
    if typ not in PUT:
        return True
    r = rcv[s]
    return not (r != NONE and r[1] == o[1] and r[2] == o[2] and o[2] != 0 and r[3] != o[3])


def rcv_after(rcv, e):
    s, typ, o, _ = e
    if typ in PUT:
        rcv = dict(rcv)
        rcv[s] = o
    elif typ == "Deleted":
        rcv = dict(rcv)
        rcv[s] = NONE
    return rcv


def drv_event(e, rnd):
    """spec event (tuple) -> driver event: a real custom resource flavour is chosen for the object."""
    s, typ, o, nerr = e
    d = {"s": s, "typ": typ, "o": None, "nerr": nerr}
    if typ in PUT:
        d["o"] = {"uid": o[1], "gen": o[2], "valid": o[3],
                  "flavor": rnd.choice(GOOD_FLAVORS if o[3] else BAD_FLAVORS)}
    return d


# ----------------------------------------------------------------------------------------------- design MC + graph

def design_mc(ctx):
    cfg = open(os.path.join(vlib.SPEC, "MC_Agent.cfg")).read().replace("Dump = FALSE", "Dump = TRUE")
    cfgp = ctx.path("MC_Agent.cfg")
    open(cfgp, "w").write(cfg)
    mc = vlib.tlc("MC_Agent", cfgp, ctx.path("mc"), workers=1, timeout=300)
    if not mc["ok"]:
        raise vlib.Inconclusive("design model check did not pass: violated=%s error=%s\n%s" %
                                (mc["violated"], mc["error"], mc["out"][-3000:]))
    cfgt = vlib.tlc_prints(mc["out"], "CFGTABLE")
    evt = vlib.tlc_prints(mc["out"], "EVTABLE")
    if len(cfgt) != 1 or len(evt) != 1:
        raise vlib.Inconclusive("state graph dump: tables missing")
    cfgs = [ctup(c) for c in cfgt[0]]
    evs = [etup(e) for e in evt[0]]
    graph = {}
    nedges = 0
    for m in re.finditer(r'^"EDGE <<([0-9, ]+)>>"$', mc["out"], re.M):
        v = [int(x) for x in m.group(1).split(",")]
        if len(v) != 13:
            raise vlib.Inconclusive("state graph dump: bad edge line %r" % m.group(0))
        src = tuple(cfgs[i - 1] for i in v[0:6])
        dst = tuple(cfgs[i - 1] for i in v[7:13])
        e = evs[v[6] - 1]
        out = graph.setdefault(src, {})
        if e in out and out[e] != dst:
            raise vlib.Inconclusive("state graph dump: the specification is not deterministic at %r %r" % (src, e))
        if e not in out:
            nedges += 1
        out[e] = dst
        graph.setdefault(dst, {})
    mc["out"] = mc["out"][-2000:]
    if len(graph) != mc["distinct"]:
        raise vlib.Inconclusive("state graph dump incomplete: %d states parsed, TLC found %d" % (len(graph), mc["distinct"]))
    return mc, graph, evs, nedges


def transition_tour(graph, rnd):
    """Histories (lists of spec events) that together take every edge of the graph at least once.
    Greedy: take an untaken edge of the current state (self-loops first), else walk to the nearest state that
    still has one (distances come from a reverse multi-source BFS that is recomputed only when it turns out
    stale); a history is cut after SEGMENT events or when no work is reachable (a fresh Agent starts in the
    initial state)."""
    init = (NONE,) * 6
    if init not in graph:
        raise vlib.Inconclusive("state graph dump: no initial state")
    states = sorted(graph, key=repr)
    sid = {s: i for i, s in enumerate(states)}
    n = len(states)
    todo, succ, pred = [None] * n, [None] * n, [[] for _ in range(n)]
    for s, out in graph.items():
        i = sid[s]
        es = sorted(out, key=repr)
        rnd.shuffle(es)
        # popped from the end: self-loops first, edges that leave the state last
        todo[i] = [(e, sid[out[e]]) for e in es if out[e] != s] + [(e, i) for e in es if out[e] == s]
        succ[i] = {}
        for e in es:
            d = sid[out[e]]
            if d != i:
                succ[i].setdefault(d, e)
    for i in range(n):
        for d in succ[i]:
            pred[d].append(i)
    remaining = sum(len(v) for v in todo)
    INF = 1 << 30
    hop = [None] * n          # state -> (event, next state) towards the nearest state with work (None: has work / unknown)
    dist = [INF] * n

    def recompute():
        for i in range(n):
            dist[i], hop[i] = INF, None
        q = deque(i for i in range(n) if todo[i])
        for i in q:
            dist[i] = 0
        while q:
            x = q.popleft()
            for p_ in pred[x]:
                if dist[p_] == INF:
                    dist[p_] = dist[x] + 1
                    hop[p_] = (succ[p_][x], x)
                    q.append(p_)

    recompute()
    i0 = sid[init]
    hists, cur, h = [], i0, []
    while remaining:
        if len(h) >= SEGMENT:
            hists.append(h)
            cur, h = i0, []
        if todo[cur]:
            e, d = todo[cur].pop()
            remaining -= 1
            h.append(e)
            cur = d
            continue
        if dist[cur] == 0 or (hop[cur] is None and dist[cur] != INF):
            recompute()                      # the table still believed this state has work
            continue
        if dist[cur] == INF:
            if cur == i0 and not h:
                recompute()
                if dist[i0] == INF:
                    raise vlib.Inconclusive("transition tour: untaken edges are unreachable from the initial state")
                continue
            if h:
                hists.append(h)
            cur, h = i0, []
            continue
        e, d = hop[cur]
        h.append(e)
        cur = d
    if h:
        hists.append(h)
    return hists


def enumerate_sequences(evs, depth, gens=None):
    """All event sequences of exactly `depth` put/delete events (typ Added/Deleted, no notify error; generations
    restricted to `gens` if given) that satisfy EnvOK; shorter ones are their prefixes."""
    alpha = sorted([e for e in evs if e[1] in ("Added", "Deleted") and not e[3]
                    and (gens is None or e[1] == "Deleted" or e[2][2] in gens)], key=repr)
    init = {"node": NONE, "group": NONE}
    res = []

    def rec(seq, rcv):
        if len(seq) == depth:
            res.append(list(seq))
            return
        for e in alpha:
            if env_ok(rcv, e):
                seq.append(e)
                rec(seq, rcv_after(rcv, e))
                seq.pop()
    rec([], init)
    return res, len(alpha)


def random_sequences(rnd, num, length):
    """Seeded random long histories over a wider alphabet (3 uids, generations 0..4, every event type, notify errors),
    biased towards what the property talks about: re-deliveries, generation 0, deletions, invalid configs."""
    uids, gens = ["a", "b", "c"], [0, 1, 2, 3, 4]
    res = []
    for _ in range(num):
        rcv = {"node": NONE, "group": NONE}
        seq = []
        wnode = rnd.choice([0.3, 0.5, 0.7])
        for _k in range(length):
            s = "node" if rnd.random() < wnode else "group"
            r = rcv[s]
            x = rnd.random()
            nerr = rnd.random() < 0.15
            if x < 0.12:
                e = (s, "Deleted", NONE, nerr)
            elif x < 0.17:
                e = (s, rnd.choice(["Bookmark", "Error"]), NONE, nerr)
            elif x < 0.32 and r != NONE:
                e = (s, rnd.choice(PUT), r, nerr)                      # the watch shows the same object again
            else:
                uid = r[1] if (r != NONE and rnd.random() < 0.6) else rnd.choice(uids)
                y = rnd.random()
                if r != NONE and y < 0.4:
                    gen = min(r[2] + 1, gens[-1])
                elif y < 0.55:
                    gen = 0
                else:
                    gen = rnd.choice(gens)
                valid = rnd.random() < 0.7
                if r != NONE and r[1] == uid and r[2] == gen and gen != 0:
                    valid = r[3]                                        # EnvOK
                typ = ("Added" if r == NONE else "Modified") if rnd.random() < 0.8 else rnd.choice(PUT)
                e = (s, typ, (s, uid, gen, valid), nerr)
            assert env_ok(rcv, e)
            seq.append(e)
            rcv = rcv_after(rcv, e)
        res.append(seq)
    return res


# ----------------------------------------------------------------------------------------------- replay + validation

def write_script(path, hists, rnd):
    """Compact script: a table of driver events + histories as index lists."""
    table, index, out = [], {}, []
    for hs in hists:
        idx = []
        for e in hs:
            d = drv_event(e, rnd)
            key = json.dumps(d, sort_keys=True)
            if key not in index:
                index[key] = len(table)
                table.append(d)
            idx.append(index[key])
        out.append(idx)
    with open(path, "w") as f:
        json.dump({"events": table, "histories": out}, f, separators=(",", ":"))
    return table, out


def split_balanced(path, nchunks, outdir):
    """Split an ndjson trace at `reset` lines into <= nchunks files of similar line counts."""
    files, cur, cur_n = [], [], 0
    total = sum(1 for _ in open(path))
    per = max(1, (total + nchunks - 1) // nchunks)

    def flush():
        nonlocal cur, cur_n
        if cur:
            fp = os.path.join(outdir, "chunk%03d.ndjson" % len(files))
            with open(fp, "w") as f:
                f.writelines(cur)
            files.append(fp)
        cur, cur_n = [], 0
    for line in open(path):
        if line.startswith('{"ev":"reset"') and cur_n >= per:
            flush()
        cur.append(line)
        cur_n += 1
    flush()
    return files, total


def validate_chunks(files, outdir, timeout):
    def one(fp):
        md = os.path.join(outdir, "tv-" + os.path.basename(fp))
        try:
            return vlib.validate_trace("Trace_Agent", "Trace_Agent.cfg", fp, md, timeout=timeout, heap="3g")
        except ValueError as ex:      # a violations file cut short (TLC killed by the timeout)
            raise vlib.Inconclusive("trace validation of %s was interrupted: %s" % (fp, ex))
    with cf.ThreadPoolExecutor(max_workers=min(len(files), vlib.NCPU)) as ex:
        return list(ex.map(one, files))


def replay_and_validate(ctx, binp, script_path, tag, nchunks, timeout):
    tp = ctx.path("trace-%s.ndjson" % tag)
    rc, out = vlib.sh(["timeout", str(timeout), binp, "--script", script_path, "--out", tp], timeout=timeout + 30)
    if rc != 0:
        raise vlib.Inconclusive("agentdrv failed rc=%d:\n%s" % (rc, out[-3000:]))
    phase(ctx, "replayed on the real agent")
    cdir = os.path.join(ctx.out, "chunks-%s" % tag)
    os.makedirs(cdir, exist_ok=True)
    nlines = sum(1 for _ in open(tp))
    files, nlines = split_balanced(tp, max(nchunks, (nlines + MAXCHUNK - 1) // MAXCHUNK), cdir)
    results = validate_chunks(files, cdir, timeout)
    viols, consumed = [], 0
    for fp, r in zip(files, results):
        if r["consumed"] is None or r["consumed"] != r["total"]:
            raise vlib.Inconclusive("trace validation did not consume %s (%s of %s): %s\n%s" % (
                fp, r["consumed"], r["total"], r["res"]["error"], r["res"]["out"][-2500:]))
        consumed += r["consumed"]
        for v in r["viols"]:
            v["chunk"] = os.path.basename(fp)
            # The agent's private bookkeeping (nodeCfg/groupCfg/currentCfg) is not part of the property: a step whose
            # only difference from the specification is internal state is mechanism DRIFT, not a violation (a refactoring
            # that keeps the delivered sequence must not raise an alarm).  Any observable consequence shows up as
            # notify-missing / notify-unexpected or in one of the five property predicates.
            if v.get("pred") == "Next" and str(v.get("sig", "")).startswith("state-"):
                DRIFT.append(v)
                continue
            viols.append(v)
    for fp in files:
        os.remove(fp)
    return tp, viols, consumed


def trace_stats(path, graph):
    """What the real-code trace exercised (vacuity guard), classified from the LOGGED states and events;
    and which edges of the design state graph were taken by the real agent."""
    keys = ["node_put_applied", "node_put_invalid", "node_put_same_version", "node_put_gen0_again",
            "node_delete_fallback", "node_delete_fallback_invalid_group", "node_delete_no_group", "node_delete_absent",
            "group_put_applied", "group_put_invalid", "group_put_shadowed_by_node", "group_put_same_version",
            "group_put_gen0_again", "group_delete_applied", "group_delete_shadowed_by_node", "group_delete_absent",
            "typ_Added", "typ_Modified", "typ_Deleted", "typ_Bookmark", "typ_Error",
            "notify_calls", "notify_error_answered", "events_with_notify_error_armed",
            "flavor_balloons", "flavor_topology-aware", "flavor_template", "flavor_bad-op", "flavor_bad-values",
            "flavor_bad-key", "flavor_bad-preserve"]
    st = {k: 0 for k in keys}
    st.update({"events": 0, "histories": 0, "hang": 0, "panic": 0, "validity_mismatch": 0, "max_history": 0})
    covered = set()
    samples = []
    pre = None
    hlen = 0
    for line in open(path):
        e = json.loads(line)
        if e["ev"] == "reset":
            st["histories"] += 1
            pre = {"node": NONE, "group": NONE, "cur": NONE, "last": NONE, "rn": NONE, "rg": NONE}
            hlen = 0
            continue
        st["events"] += 1
        hlen += 1
        st["max_history"] = max(st["max_history"], hlen)
        if e.get("hang"):
            st["hang"] += 1
            continue
        if e.get("panic"):
            st["panic"] += 1
        if len(samples) < 2 and e["nt"]:
            samples.append(e)
        s, typ, o = e["ev"], e["typ"], ctup(e["o"])
        st["typ_" + typ] += 1
        st["notify_calls"] += len(e["nt"])
        st["notify_error_answered"] += sum(1 for x in e["nres"] if x)
        st["events_with_notify_error_armed"] += 1 if e["nerr"] else 0
        ev = (s, typ, o, e["nerr"])
        covered.add(((pre["node"], pre["group"], pre["cur"], pre["last"], pre["rn"], pre["rg"]), ev))
        rk = "rn" if s == "node" else "rg"
        shown = pre[rk]
        if typ in PUT:
            st["flavor_" + e["fl"]] += 1
            if e["want"] != o[3]:
                st["validity_mismatch"] += 1
            same = shown != NONE and shown[1] == o[1] and shown[2] == o[2]
            if same and o[2] != 0:
                st[s + "_put_same_version"] += 1
            elif s == "group" and pre["rn"] != NONE:
                st["group_put_shadowed_by_node"] += 1
            elif not o[3]:
                st[s + "_put_invalid"] += 1
            else:
                st[s + "_put_applied"] += 1
                if same:
                    st[s + "_put_gen0_again"] += 1
        elif typ == "Deleted":
            if shown == NONE:
                st[s + "_delete_absent"] += 1
            elif s == "node":
                g = pre["rg"]
                st["node_delete_no_group" if g == NONE else
                   ("node_delete_fallback" if g[3] else "node_delete_fallback_invalid_group")] += 1
            else:
                st["group_delete_shadowed_by_node" if pre["rn"] != NONE else "group_delete_applied"] += 1
        rcv = rcv_after({"node": pre["rn"], "group": pre["rg"]}, ev)
        pre = {"node": ctup(e["st"]["node"]), "group": ctup(e["st"]["group"]), "cur": ctup(e["st"]["cur"]),
               "last": ctup(e["nt"][-1]) if e["nt"] else pre["last"], "rn": rcv["node"], "rg": rcv["group"]}
    edges = {(s, e) for s, out in graph.items() for e in out}
    st["graph_edges"] = len(edges)
    st["graph_edges_taken_by_real_agent"] = len(edges & covered)
    st["distinct_state_event_pairs"] = len(covered)
    return st, samples


VACUITY = ["node_put_applied", "node_put_invalid", "node_put_same_version", "node_put_gen0_again",
           "node_delete_fallback", "node_delete_fallback_invalid_group", "node_delete_no_group", "node_delete_absent",
           "group_put_applied", "group_put_invalid", "group_put_shadowed_by_node", "group_put_same_version",
           "group_put_gen0_again", "group_delete_applied", "group_delete_shadowed_by_node", "group_delete_absent",
           "typ_Added", "typ_Modified", "typ_Deleted", "typ_Bookmark", "typ_Error",
           "notify_calls", "notify_error_answered",
           "flavor_balloons", "flavor_topology-aware", "flavor_template", "flavor_bad-op", "flavor_bad-values",
           "flavor_bad-key", "flavor_bad-preserve"]

ASSUMPTIONS = [
    "TLC and the Json/IOUtils community modules",
    "the Go harness: events enter through VerifNodeWatchEvent/VerifGroupWatchEvent (a copy of the two switch statements "
    "of the select loop in Agent.Start) and state is read through getters of nodeCfg/groupCfg/currentCfg",
    "environment assumption EnvOK: an event that repeats the UID and non-zero generation of the object the same watch showed "
    "last carries a config with the same validation outcome (metadata.generation changes with every spec change)",
    "generation 0 (object read from a file) is not a 'resource version': Act_NoRedelivery makes no claim for it",
    "'valid' is the answer of the object's real Validate() (BalloonsPolicy; TopologyAwarePolicy/TemplatePolicy have none and count as valid, "
    "as in updateConfig)",
    "a fatal notify error (log.Fatalf -> process exit) is not exercised; non-fatal notify errors are",
    "objects that are not metav1.Object, watch (re)creation and the node watch (group membership changes) are outside the model",
]


DRIFT = []


def check_trace_preds(viols):
    bad = [v for v in viols if v["pred"] == "Trace"]
    if bad:
        raise vlib.Inconclusive("malformed trace / broken driver assumption (not a verdict): %s" % json.dumps(bad[0])[:800])
    unknown = [v for v in viols if v["pred"] not in PREDS]
    if unknown:
        raise vlib.Inconclusive("trace spec reported an unknown predicate: %s" % json.dumps(unknown[0])[:800])


def phase(ctx, msg):
    import time
    vlib.log("C17 +%.1fs %s" % (time.time() - ctx.t0, msg))


def run(ctx):
    q = ctx.quick
    rnd = random.Random(int(ctx.seed) * 7919 + 17)
    binp = vlib.build_harness(cmd="agentdrv")

    if ctx.replay:
        rp = json.load(open(ctx.replay))
        sc = rp["replay"]["script"]
        sp = ctx.path("replay-script.json")
        json.dump(sc, open(sp, "w"))
        tp, viols, consumed = replay_and_validate(ctx, binp, sp, "replay", 1, 300)
        check_trace_preds(viols)
        for v in viols:
            print("replayed violation:", json.dumps(v))
        return vlib.verdict(ctx, viols, "model_checking",
                            {"states": 1, "transitions": 1, "traces_validated_against_impl": len(sc["histories"]),
                             "samples": sc["histories"][:1]}, ["replay"], {"script": sc})

    # 1. design check + state graph ---------------------------------------------------------------------------
    mc, graph, evs, nedges = design_mc(ctx)
    phase(ctx, "design check: %d states, %d transitions, %d edges" % (mc["distinct"], mc["generated"], nedges))
    big = None
    if not q:
        cfgb = open(os.path.join(vlib.SPEC, "MC_Agent.cfg")).read().replace("Uids <- MCUids", "Uids <- MCUidsBig") \
            .replace("Gens <- MCGens", "Gens <- MCGensBig")
        cfgbp = ctx.path("MC_Agent_big.cfg")
        open(cfgbp, "w").write(cfgb)
        big = vlib.tlc("MC_Agent", cfgbp, ctx.path("mcbig"), workers=vlib.NCPU, timeout=1500)
        if not big["ok"]:
            raise vlib.Inconclusive("large design model check did not pass: violated=%s error=%s\n%s" %
                                    (big["violated"], big["error"], big["out"][-3000:]))
        phase(ctx, "large design check (3 uids x generations 0..3): %d states, %d transitions" % (big["distinct"], big["generated"]))

    # 2. drivers --------------------------------------------------------------------------------------------------
    tour = transition_tour(graph, rnd)
    depth = 3
    enum, nalpha = enumerate_sequences(evs, depth)
    enum_note = "all %d-event sequences over %d put/delete events" % (depth, nalpha)
    if not q:
        enum, nalpha = enumerate_sequences(evs, 4)
        enum_note = "all 4-event sequences over %d put/delete events" % nalpha
    rnds = random_sequences(rnd, 150 if q else 6000, 60 if q else 120)
    hists = tour + enum + rnds
    src_of = (["tour"] * len(tour)) + (["enum"] * len(enum)) + (["random"] * len(rnds))
    sp = ctx.path("script.json")
    table, idx_hists = write_script(sp, hists, rnd)
    phase(ctx, "drivers: tour %d histories/%d events, %d enumerated sequences, %d random histories" %
          (len(tour), sum(len(h) for h in tour), len(enum), len(rnds)))

    # 3./4. replay on the real agent, validate with TLC ---------------------------------------------------------
    tp, viols, consumed = replay_and_validate(ctx, binp, sp, "all", vlib.NCPU if q else 2 * vlib.NCPU, 600 if q else 3000)
    phase(ctx, "replayed and validated %d trace lines, %d violation records" % (consumed, len(viols)))
    check_trace_preds(viols)
    for v in viols:
        v["driver"] = src_of[v["h"]] if 0 <= v["h"] < len(src_of) else "?"

    # vacuity guard -------------------------------------------------------------------------------------------------
    st, samples = trace_stats(tp, graph)
    phase(ctx, "trace statistics")
    if st["validity_mismatch"]:
        raise vlib.Inconclusive("harness: %d objects did not validate as requested by the driver" % st["validity_mismatch"])
    nlines_expected = sum(len(h) for h in hists) + len(hists)
    if not viols:
        if consumed != nlines_expected:
            raise vlib.Inconclusive("trace has %d lines, the script asked for %d" % (consumed, nlines_expected))
        empty = [k for k in VACUITY if st[k] == 0]
        if empty:
            raise vlib.Inconclusive("drivers never exercised: %s" % empty)
        if st["graph_edges_taken_by_real_agent"] != st["graph_edges"] or st["graph_edges"] != nedges:
            raise vlib.Inconclusive("the real agent took only %d of the %d edges of the design state graph" %
                                    (st["graph_edges_taken_by_real_agent"], nedges))

    payload = None
    if viols:
        # shortest reproductions first: per kind (pred, sig) the violating step with the fewest preceding events
        best = {}
        for v in viols:
            if not (0 <= v["h"] < len(idx_hists)):
                continue
            key = (v["pred"], v["sig"])
            if key not in best or v["k"] < best[key]["k"]:
                best[key] = v
        picks = []
        for v in sorted(best.values(), key=lambda v: v["k"]):
            if (v["h"], v["k"]) not in picks:
                picks.append((v["h"], v["k"]))
        picks = picks[:8]
        payload = {"script": {"events": table, "histories": [idx_hists[h][:k + 1] for h, k in picks]},
                   "readable": [[table[i] for i in idx_hists[h][:k + 1]] for h, k in picks if k < 12]}

    if not viols:              # big scratch files are kept only when there is something to look at
        os.remove(sp)
        os.remove(tp)
    cov = {"states": mc["distinct"], "transitions": mc["generated"], "design_depth": mc["depth"],
           "design_edges": nedges,
           "design_large": None if big is None else {"config": "3 uids x generations {0,1,2,3}", "states": big["distinct"],
                                                     "transitions": big["generated"], "depth": big["depth"]},
           "design_config": "MC_Agent: 2 watches x (2 uids x generations {0,1,2} x valid/invalid) x {Added, Modified} + Deleted/Bookmark/Error, "
                            "notify answering ok/error; complete reachable graph under VIEW (notify log abstracted to its last element)",
           "traces_validated_against_impl": st["histories"], "trace_events": st["events"],
           "tour_histories": len(tour), "tour_events": sum(len(h) for h in tour),
           "enumerated_sequences": len(enum), "enumeration": enum_note,
           "random_histories": len(rnds),
           "evaluations": st["events"], "distinct_nontrivial": st["distinct_state_event_pairs"],
           "rule": "one evaluation = one watch event handled by the real Agent whose notify calls and nodeCfg/groupCfg/currentCfg were checked by TLC "
                   "against Step and the five C17 predicates; distinct = distinct (logged agent state + last delivered + objects shown by the watches, event) pairs",
           "exhaustive": True,
           "exhaustive_meaning": "every edge of the complete design state graph (alphabet above) was taken by the real agent (%d of %d), "
                                 "and the enumerated sequences were replayed (%s)" % (st["graph_edges_taken_by_real_agent"], nedges, enum_note),
           "exercised": {k: st[k] for k in st},
           "predicates": PREDS, "samples": samples}
    return vlib.verdict(ctx, viols, "model_checking", cov, ASSUMPTIONS, payload)
