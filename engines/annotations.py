"""Engine: effective annotations (C18).

1. design check: TLC exhaustively on MC_Annotations (all subsets of 2 keys x {container.c, container.other,
   pod, bare} in all storage orders): scanning in any order = the order-free definition, other containers'
   entries are ignored, explicit parameters override class-derived ones
2. cases: exhaustive core (every subset of the three spellings x keys x container names incl. prefix /
   suffix / separator names, with and without entries addressed to other containers) + a seeded random part
3. replay on the REAL code of the four sites, in parallel:
      cache     /verif/harness/cmd/annodrv      (real cache.Cache: InsertPod, InsertContainer, GetEffectiveAnnotation)
      epc       go test -tags verif ./cmd/plugins/sgx-epc     (parseEpcLimit, CreateContainer)
      memqos    go test -tags verif ./cmd/plugins/memory-qos  (setConfig/Configure, effectiveAnnotations, CreateContainer)
      memtierd  go test -tags verif ./cmd/plugins/memtierd    (the same)
   every case re-creates the pod's Go annotation map >= 24 times (insertion orders, map layouts)
4. trace validation: TLC on Trace_Annotations: real result = Effective / QosUnified / EpcLimit, the result set
   over the re-creations is a singleton, no panic; POSTCONDITION: the input domain was covered
5. verdict from the real-code traces only; known findings matched by (predicate, signature)

The key syntax of each site lives in `spell` below and nowhere else (notes/annotations.md).
"""
import concurrent.futures as cf
import itertools
import json
import os
import random
import shutil
import time

import vlib

PROPS = ["C18"]
PREDS = {"Act_C18_Effective", "Act_C18_Output", "Act_C18_OrderIndependent", "Act_NoPanic", "Act_Terminates", "Trace"}

SITES = ["cache", "epc", "memqos", "memtierd"]
QOS = ("memqos", "memtierd")
SFX = {"memqos": ".memory-qos.nri.io", "memtierd": ".memtierd.nri.io"}
PKG = {"epc": "cmd/plugins/sgx-epc", "memqos": "cmd/plugins/memory-qos", "memtierd": "cmd/plugins/memtierd"}
SLOTS = ("container", "pod", "bare")
RUNS = 24

# container names: prefixes / suffixes of each other, the words of the key syntax, the separators of the key syntax
NAMES = ["c", "c1", "1c", "c.c", "pod", "container.c", "container.pod", "c/pod", "x/c", "c/container.c"]
# ... and, at the side plugins, a name that ends like their annotation keys do
def names_of(site):
    return NAMES + (["c" + SFX[site]] if site in QOS else [])

RP = ".resource-policy.nri.io"
KEYS = {
    # the real policy keys behind cache.Container helpers, two more real policy keys, and a key that has another
    # key as its suffix
    "cache": ["memory-type" + RP, "cpu.preserve" + RP, "memory.preserve" + RP, "rdtclass" + RP,
              "prefer-isolated-cpus" + RP, "x.memory-type" + RP],
    # the only key of the plugin plus two look-alikes that must have no effect
    "epc": ["epc-limit.nri.io", "xepc-limit.nri.io", "epc-limit.nri.io.x"],
    "memqos": ["class", "memory.high", "memory.swap.max", "memory.oom.group"],
    "memtierd": ["class", "memory.high", "memory.swap.max", "memory.oom.group"],
}
PRIMARY = {"cache": KEYS["cache"][:3], "epc": KEYS["epc"][:1],
           "memqos": ["class", "memory.high", "memory.swap.max"], "memtierd": ["class", "memory.high", "memory.swap.max"]}

MEMQOS_A = """unifiedannotations: [memory.high, memory.swap.max, memory.oom.group]
classes:
- name: silver
  swaplimitratio: 0.5
- name: gold
  swaplimitratio: 0.25
- name: bronze
  swaplimitratio: 0.75
- name: plain
  swaplimitratio: 0.0
"""
MEMQOS_B = """unifiedannotations: [memory.high]
classes:
- name: silver
  swaplimitratio: 0.5
"""
MEMTIERD_A = """classes:
- name: silver
  allowswap: true
- name: gold
  allowswap: false
- name: bronze
  allowswap: true
- name: plain
"""
MEMTIERD_B = """classes:
- name: silver
  allowswap: false
"""
MT_ALLOWED = ["memory.swap.max", "memory.high"]     # memtierd: fixed in the code, not configurable
CFGS = {
    "memqos": {
        "A": {"yaml": MEMQOS_A, "configured": True, "allowed": ["memory.high", "memory.swap.max", "memory.oom.group"],
              "strict": True, "emptyIsNone": False, "classes": ["silver", "gold", "bronze", "plain"]},
        "B": {"yaml": MEMQOS_B, "configured": True, "allowed": ["memory.high"], "strict": True, "emptyIsNone": False,
              "classes": ["silver"]},
        "none": {"yaml": "", "configured": False, "allowed": [], "strict": True, "emptyIsNone": False, "classes": []},
    },
    "memtierd": {
        "A": {"yaml": MEMTIERD_A, "configured": True, "allowed": MT_ALLOWED, "strict": False, "emptyIsNone": True,
              "classes": ["silver", "gold", "bronze", "plain"]},
        "B": {"yaml": MEMTIERD_B, "configured": True, "allowed": MT_ALLOWED, "strict": False, "emptyIsNone": True,
              "classes": ["silver"]},
        "none": {"yaml": "", "configured": False, "allowed": MT_ALLOWED, "strict": False, "emptyIsNone": True, "classes": []},
    },
}


def spell(site, key, slot, ctr):
    """The one place that knows how each site writes (key, form, container) as a Go string.
    Returns (raw annotation key, scope, addressed container) -- the structured form the spec works on."""
    if site in ("cache", "epc"):
        if slot == "container":
            return key + "/container." + ctr, "container", ctr
        if slot == "pod":
            return key + "/pod", "pod", ""
        return key, "bare", ""
    full = key + SFX[site]
    if slot == "container":
        return full + "/" + ctr, "container", ctr
    if slot == "pod":
        # memory-qos / memtierd document two forms only; "<key>/pod" addresses a container called "pod"
        return full + "/pod", "container", "pod"
    return full, "bare", ""


def entry(site, key, slot, ctr, val):
    raw, scope, actr = spell(site, key, slot, ctr)
    return {"raw": raw, "val": val, "key": key, "scope": scope, "ctr": actr, "vp": val,
            "nsfx": bool(site in QOS and scope == "container" and actr.endswith(SFX[site]))}


def dedupe(ann):
    """A Go map holds a key once: keep the first entry per raw string; the structured form must then be unique too."""
    seen, out = set(), []
    for a in ann:
        if a["raw"] in seen:
            continue
        seen.add(a["raw"])
        out.append(a)
    st = {(a["key"], a["scope"], a["ctr"]) for a in out}
    if len(st) != len(out):
        raise vlib.Inconclusive("generator: two raw keys with one structured form: %s" % out)
    return out


# values: one per spelling so that the trace shows WHICH entry the real code took
def slot_values(site, key, variant=0):
    if site in QOS and key == "class":
        v = {"container": "silver", "pod": "gold", "bare": "bronze", "other": "zzz"}
        if variant == 1:
            v = {"container": "gold", "pod": "zzz", "bare": "silver", "other": "plain"}
        return v
    if site == "epc":
        v = {"container": "16384", "pod": "32768", "bare": "8192", "other": "4096"}
        if variant == 1:       # winner does not parse / is empty / is zero: no fall-through to a less specific form
            v = {"container": "abc", "pod": "", "bare": "0", "other": "x"}
        if variant == 2:
            v = {"container": "007", "pod": "18446744073709551615", "bare": "-1", "other": "18446744073709551616"}
        return v
    if site == "cache" and key.startswith("memory-type"):
        v = {"container": "dram", "pod": "pmem", "bare": "hbm", "other": "dram,pmem,hbm"}
        if variant == 1:
            v = {"container": "bogus", "pod": "dram,pmem", "bare": "", "other": "hbm"}
        return v
    if site == "cache" and (key.startswith("cpu.preserve") or key.startswith("memory.preserve")):
        v = {"container": "true", "pod": "false", "bare": "true", "other": "true"}
        if variant == 1:
            v = {"container": "false", "pod": "true", "bare": "", "other": "true"}
        return v
    v = {"container": "vC", "pod": "vP", "bare": "vB", "other": "vO"}
    if variant == 1:
        v = {"container": "", "pod": "vP", "bare": "", "other": "vO"}
    return v


def gen_cases(seed, quick):
    rng = random.Random(seed)
    cases = []

    def add(site, ctr, ann, cfg="A", res="full", tag="core", others=None):
        ann = dedupe(ann)
        oth = others if others is not None else sorted({a["ctr"] for a in ann if a["scope"] == "container" and a["ctr"] != ctr})[:2]
        # sgx-epc has no generic "effective annotation" entry point: nothing to resolve key by key
        cases.append({"id": len(cases) + 1, "site": site, "ctr": ctr, "others": oth, "ann": ann,
                      "keys": [] if site == "epc" else KEYS[site],
                      "cfg": cfg if site in QOS else "", "res": res, "tag": tag})

    subsets = [s for n in range(4) for s in itertools.combinations(SLOTS, n)]
    # ---- exhaustive core -------------------------------------------------------------------------
    for site in SITES:
        names = names_of(site)
        for pk in PRIMARY[site]:
            nvar = 3 if site == "epc" else 2
            for variant in range(nvar):
                vals = slot_values(site, pk, variant)
                if site == "memqos" and pk == "class" and variant == 1:
                    # effective class "zzz": an error that the spec predicts; keep
                    pass
                for ctr in names:
                    for sub in subsets:
                        for noise in (0, 1):
                            ann = [entry(site, pk, s, ctr, vals[s]) for s in sub]
                            if noise:
                                for o in NAMES:
                                    if o != ctr:
                                        ann.append(entry(site, pk, "container", o, vals["other"]))
                            comps = [None]
                            if site in QOS and variant == 0:
                                if pk == "class":
                                    comps = [None, ("memory.high", "bare", "111"), ("memory.high", "container", "222"),
                                             ("memory.swap.max", "bare", "333")]
                                else:
                                    comps = [None, ("class", "bare", "silver"), ("class", "container", "gold")]
                            elif site == "epc" and noise:
                                # look-alike keys in all three spellings: no effect
                                for k in KEYS["epc"][1:]:
                                    for s in SLOTS:
                                        ann.append(entry(site, k, s, ctr, "999"))
                            for comp in comps:
                                a2 = list(ann)
                                if comp:
                                    a2.append(entry(site, comp[0], comp[1], ctr, comp[2]))
                                    if noise:   # the same parameter for somebody else
                                        a2.append(entry(site, comp[0], "container", "c1" if ctr != "c1" else "c", "444"))
                                add(site, ctr, a2)

    # the name that ends like the annotation keys, as ANOTHER container (kept apart from the bulk above: at memory-qos
    # it trips F-C18-1 and the error would hide what the rest of the case checks)
    for site in QOS:
        for pk in PRIMARY[site]:
            vals = slot_values(site, pk, 0)
            for ctr in ("c", "pod"):
                for sub in subsets:
                    add(site, ctr, [entry(site, pk, s, ctr, vals[s]) for s in sub]
                        + [entry(site, pk, "container", "c" + SFX[site], vals["other"])], tag="sfxname")

    # ---- hand-picked ------------------------------------------------------------------------------
    # memtierd: the documented 'class: ""' (no class for this container) over a pod-wide class, and the reverse
    add("memtierd", "c", [entry("memtierd", "class", "container", "c", ""), entry("memtierd", "class", "bare", "", "silver")], tag="special")
    add("memtierd", "c", [entry("memtierd", "class", "container", "c", "silver"), entry("memtierd", "class", "bare", "", "")], tag="special")
    add("memtierd", "c", [entry("memtierd", "class", "bare", "", "")], tag="special")
    add("memqos", "c", [entry("memqos", "class", "container", "c", "silver"), entry("memqos", "class", "bare", "", "")], tag="special")
    for site in QOS:
        # smallest form of F-C18-1: one annotation for a container whose name ends like the annotation keys do
        add(site, "c", [entry(site, "class", "container", "c" + SFX[site], "silver")], tag="special")
        add(site, "c", [entry(site, "memory.high", "container", "c" + SFX[site], "5"), entry(site, "memory.high", "bare", "", "6")], tag="special")
        # plugin without configuration: fine as long as nothing asks for a class or parameter; a class is a clean error
        add(site, "c", [], cfg="none", tag="special")
        add(site, "c", [entry(site, "class", "container", "c1", "silver")], cfg="none", tag="special")
        add(site, "c", [entry(site, "class", "bare", "", "silver")], cfg="none", tag="special")
        # absent optional sub-messages of the container
        for res in ("nolimit", "nomem", "nores", "nolinux"):
            add(site, "c", [entry(site, "memory.high", "container", "c", "5"), entry(site, "memory.high", "bare", "", "6"),
                            entry(site, "class", "container", "c1", "silver")], res=res, tag="special")
            add(site, "c", [entry(site, "class", "container", "c", "plain"), entry(site, "class", "bare", "", "zzz")], res=res, tag="special")
    for res in ("nomem", "nores", "nolinux"):
        add("cache", "c", [entry("cache", KEYS["cache"][0], "container", "c", "dram"), entry("cache", KEYS["cache"][1], "pod", "", "true")],
            res=res, tag="special")
    # F-C14-4 (C14, not C18): memory-qos nil dereferences; kept so that the evidence shows them, reported as Act_NoPanic
    add("memqos", "c", [entry("memqos", "memory.high", "bare", "", "5")], cfg="none", tag="c14")
    add("memqos", "c", [entry("memqos", "class", "bare", "", "silver")], res="nomem", tag="c14")

    # ---- seeded random part -------------------------------------------------------------------------
    nrand = 3000 if quick else 60000
    pools = {
        "class": ["silver", "gold", "bronze", "plain", "zzz", "silver"],
        "epc": ["0", "1", "4096", "8192", "", "abc", "12x", "007", "4294967296", "-5"],
        "memory-type": ["dram", "pmem", "hbm", "dram,pmem", "pmem,hbm", "bogus", "", "DRAM"],
        "preserve": ["true", "false", "", "True", "1"],
        "plain": ["a", "b", "c", "", "a", "max", "0"],
    }

    def pool(site, key):
        if site in QOS and key == "class":
            return pools["class"]
        if site == "epc":
            return pools["epc"]
        if key.startswith("memory-type"):
            return pools["memory-type"]
        if "preserve" in key:
            return pools["preserve"]
        return pools["plain"]

    for _ in range(nrand):
        site = rng.choices(SITES, weights=[15, 25, 30, 30])[0]     # (the cache driver pays a cache.Save per re-creation)
        names = names_of(site)
        ctr = rng.choice(names)
        others = rng.sample([n for n in NAMES if n != ctr], rng.randint(0, 3))
        cfg, res = "A", "full"
        keys = list(KEYS[site])
        if site in QOS:
            cfg = rng.choice(["A", "A", "A", "B", "none"])
            if site == "memqos" and cfg == "none":
                keys = ["class"]            # anything else is the F-C14-4 nil dereference
        if site == "epc":
            keys = [keys[0]] * 3 + keys[1:]
        ann = []
        for _ in range(rng.randint(0, 9)):
            k = rng.choice(keys)
            who = rng.random()
            if who < 0.6:
                ann.append(entry(site, k, rng.choice(SLOTS), ctr, rng.choice(pool(site, k))))
            elif others:
                ann.append(entry(site, k, "container", rng.choice(others), rng.choice(pool(site, k))))
        ann = dedupe(ann)
        if site == "memqos":
            # outside C18 and avoided: 'class: ""' (the code treats it as an unknown class although the documentation
            # says "no class") for entries that can win; containers without memory resources under a class (F-C14-4)
            for a in ann:
                if a["key"] == "class" and a["val"] == "" and (a["scope"] != "container" or a["ctr"] == ctr):
                    a["val"] = a["vp"] = "plain"
            if not any(a["key"] == "class" and (a["scope"] != "container" or a["ctr"] == ctr) for a in ann):
                res = rng.choice(["full", "nolimit", "nomem", "nores", "nolinux"])
        elif site != "epc":
            res = rng.choice(["full", "full", "nolimit", "nomem", "nores", "nolinux"])
        add(site, ctr, ann, cfg=cfg, res=res, tag="rand", others=others[:2])
    return cases


# --------------------------------------------------------------------------------------------- running

def run_site(ctx, site, drvp, binp):
    tp = ctx.path("trace-%s.ndjson" % site)
    t0 = time.time()
    if site == "cache":
        sd = ctx.path("cache-state", "x")
        rc, out = vlib.sh([binp, "--in", drvp, "--out", tp, "--dir", os.path.dirname(sd), "--workers", str(min(16, vlib.NCPU))],
                          timeout=600 if ctx.quick else 1800)
        shutil.rmtree(os.path.dirname(sd), ignore_errors=True)
    else:
        rc, out = vlib.go_test_pkg(PKG[site], "^TestVerifTrace$", env_extra={"VERIF_DRIVER": drvp, "VERIF_TRACE": tp},
                                   timeout=600 if ctx.quick else 1800)
    if rc != 0 and not (os.path.exists(tp) and '"ev":"hang"' in open(tp).read()[-400:]):
        raise vlib.Inconclusive("driver for site %s failed rc=%d:\n%s" % (site, rc, out[-3000:]))
    return site, tp, round(time.time() - t0, 1)


def validate(ctx, files):
    def one(arg):
        fp, cfg = arg
        md = ctx.path("tv-" + os.path.basename(fp), "x")
        return vlib.validate_trace("Trace_Annotations", cfg, fp, os.path.dirname(md), timeout=600 if ctx.quick else 1800, heap="2g")
    with cf.ThreadPoolExecutor(max_workers=min(len(files), vlib.NCPU)) as ex:
        return list(ex.map(one, files))


def run(ctx):
    q = ctx.quick
    binp = vlib.build_harness(cmd="annodrv")

    # ---- cases -----------------------------------------------------------------------------------
    if ctx.replay:
        rp = json.load(open(ctx.replay))
        cases = rp["replay"]["cases"]
    else:
        cases = gen_cases(ctx.seed, q)
    runs = RUNS if q else 2 * RUNS
    drv = {"seed": ctx.seed, "runs": runs, "cases": cases}
    drvps = {}
    for site in SITES:
        d = dict(drv, cfgs=CFGS.get(site, {}), cases=[c for c in cases if c["site"] == site])
        if site == "cache":
            d["runs"] = RUNS        # every re-creation costs a cache.Save (file write + rename)
        drvps[site] = ctx.path("driver-%s.json" % site)
        json.dump(d, open(drvps[site], "w"))

    # ---- design check + real-code replay, in parallel --------------------------------------------
    with cf.ThreadPoolExecutor(max_workers=5) as ex:
        fmc = ex.submit(vlib.tlc, "MC_Annotations", "MC_Annotations.cfg", os.path.join(ctx.out, "mc"), workers=8, timeout=600, heap="2g")
        futs = [ex.submit(run_site, ctx, s, drvps[s], binp) for s in SITES if any(c["site"] == s for c in cases)]
        traces = dict((s, (tp, w)) for s, tp, w in [f.result() for f in futs])
        mc = fmc.result()
    if not mc["ok"]:
        raise vlib.Inconclusive("design model check did not pass: violated=%s error=%s\n%s" %
                                (mc["violated"], mc["error"], mc["out"][-3000:]))

    # ---- merge: calibration lines + core cases first (they must cover the domain), random part in chunks
    lines = {"calib": [], "core": [], "rand": []}
    nobs = 0
    for s in SITES:
        if s not in traces:
            continue
        for ln in open(traces[s][0]):
            if not ln.strip():
                continue
            e = json.loads(ln)
            if e["ev"] == "case":
                nobs += e["nruns"]
                lines["rand" if e.get("tag") == "rand" else "core"].append(ln)
            else:
                lines["calib" if e["ev"] == "calib" else "core"].append(ln)
    got = sum(1 for k in ("core", "rand") for ln in lines[k] if '"ev":"case"' in ln)
    hang = any('"ev":"hang"' in ln for ln in lines["core"])
    if got != len(cases) and not hang:
        raise vlib.Inconclusive("drivers returned %d of %d cases" % (got, len(cases)))
    files = []
    t_all = ctx.path("trace.ndjson")
    open(t_all, "w").write("".join(lines["calib"] + lines["core"] + lines["rand"]))
    for s in SITES:     # the core of each site is one file: its POSTCONDITION demands the site's input domain
        mine_ = [ln for ln in lines["calib"] + lines["core"] if '"site":"%s"' % s in ln]
        if mine_:
            fp = ctx.path("chunk-core-%s.ndjson" % s)
            open(fp, "w").write("".join(mine_))
            # (a replay or a run cut short by a hanging handler cannot cover the domain: no POSTCONDITION then)
            files.append((fp, "Trace_Annotations_part.cfg" if (ctx.replay or hang) else "Trace_Annotations.cfg"))
    per = 1500
    for i in range(0, len(lines["rand"]), per):
        fp = ctx.path("chunk-rand%03d.ndjson" % (i // per))
        open(fp, "w").write("".join(lines["rand"][i:i + per]))     # (every case line carries its configuration)
        files.append((fp, "Trace_Annotations_part.cfg"))

    # ---- trace validation ---------------------------------------------------------------------------
    t_val = time.time()
    results = validate(ctx, files)
    t_val = round(time.time() - t_val, 1)
    viols, consumed, cover = [], 0, set()
    for (fp, cfgn), r in zip(files, results):
        if r["consumed"] is None or r["consumed"] != r["total"]:
            raise vlib.Inconclusive("trace validation did not consume %s (%s of %s): %s\n%s" % (
                fp, r["consumed"], r["total"], r["res"]["error"], r["res"]["out"][-2500:]))
        if not r["res"]["ok"]:
            raise vlib.Inconclusive("trace validation of %s failed (%s; input domain not covered?):\n%s" % (
                fp, r["res"]["error"] or r["res"]["violated"], r["res"]["out"][-2500:]))
        consumed += r["consumed"]
        for c in vlib.tlc_prints(r["res"]["out"], "COVER"):
            cover |= set(c if isinstance(c, list) else [])
        seen = set()
        for v in r["viols"]:
            k = (v["pred"], v["sig"], v["id"], v["w"])
            if k in seen:
                continue
            seen.add(k)
            viols.append(v)
    mine = [v for v in viols if v["pred"] in PREDS]
    if len(mine) != len(viols):
        raise vlib.Inconclusive("trace spec reported an unknown predicate: %s" % [v for v in viols if v["pred"] not in PREDS][:3])

    # ---- vacuity guard --------------------------------------------------------------------------------
    if not ctx.replay and not hang:
        need = {"%s:%s%s%s" % (s, x, y, z) for s in SITES for x in "c-" for y in "p-" for z in "b-"} | {s + ":seen" for s in SITES}
        need |= {"%s:%s" % (s, t) for s in QOS for t in ("explicit-over-class", "class-derived-shown")}
        missing = sorted(need - cover)
        if missing:
            raise vlib.Inconclusive("drivers never exercised: %s" % missing)

    by_id = {c["id"]: c for c in cases}
    bad_ids = []
    for v in mine:
        if v["id"] in by_id and v["id"] not in bad_ids:
            bad_ids.append(v["id"])
        if v["id"] in by_id:
            v["rawmap"] = {a["raw"]: a["val"] for a in by_id[v["id"]]["ann"]}
            v["container"] = by_id[v["id"]]["ctr"]
            v["cfg"] = by_id[v["id"]]["cfg"]
            v["res"] = by_id[v["id"]]["res"]
    payload = {"cases": [by_id[i] for i in bad_ids[:40]]} if mine else None

    def shape(c):
        return json.dumps([c["site"], c["ctr"], sorted((a["key"], a["scope"], a["ctr"], a["val"]) for a in c["ann"]), c["cfg"], c["res"]])
    nontrivial = len({shape(c) for c in cases if c["ann"]})
    sample = [json.loads(l) for l in (lines["core"][5:6] + lines["core"][-1:])]
    cov = {"states": mc["distinct"], "transitions": mc["generated"], "design_depth": mc["depth"],
           "design_config": "MC_Annotations: 2 keys x {container.c, container.other, pod, bare}; every subset in every storage order",
           "traces_validated_against_impl": got, "trace_events": consumed,
           "evaluations": nobs, "distinct_nontrivial": nontrivial,
           "rule": "one evaluation = one re-creation of a pod's Go annotation map resolved by the real handlers of one site "
                   "(cache: GetEffectiveAnnotation x2 + helpers; epc: parseEpcLimit + CreateContainer; memory-qos/memtierd: "
                   "effectiveAnnotations + CreateContainer), %d re-creations per case (insertion orders x map layouts), the distinct results compared by TLC with "
                   "Effective/EpcLimit/QosUnified; distinct = distinct (site, container, structured annotation set with values, "
                   "configuration, container resources shape) with at least one annotation" % runs,
           "cases_per_site": {s: sum(1 for c in cases if c["site"] == s) for s in SITES},
           "cases_by_tag": {t: sum(1 for c in cases if c["tag"] == t) for t in sorted({c["tag"] for c in cases})},
           "driver_wall_s": {s: traces[s][1] for s in traces}, "design_wall_s": mc["wall_s"], "validation_wall_s": t_val,
           "domain_tokens": sorted(cover),
           "predicates": sorted(PREDS - {"Trace"}),
           "samples": sample, "exhaustive": False,
           "exhaustive_part": "core: every subset of the 3 spellings x %d names x primary keys x {no, all} other containers' entries" % len(NAMES)}
    # scratch hygiene: the merged trace is kept (quick tier, or whenever something was found), the pieces are not
    for fp, _ in files:
        os.remove(fp)
    for s_ in traces:
        os.remove(traces[s_][0])
    if not mine and not q:
        os.remove(t_all)
        for s_ in drvps:
            os.remove(drvps[s_])
    return vlib.verdict(ctx, mine, "model_checking", cov,
                        ["TLC and the Json community module",
                         "the raw annotation strings are spelled by engines/annotations.py:spell (site syntax, notes/annotations.md); "
                         "the drivers log them next to the structured form",
                         "what a class alone yields (memory-qos, memtierd) is measured on the real plugin (calibration lines), "
                         "not modelled",
                         "memory-qos/memtierd document two spellings: '<p><suffix>/<container>' and '<p><suffix>' (= pod-wide = bare key)"],
                        payload)
