"""Engine: libmem (C06 transactional operations / stale offers, C07 placement rules).

1. design check: TLC exhaustively on MC_MemAlloc (small constants) -- all predicates of both properties
2. drivers: (a) behaviours of the design spec (TLC -simulate on Sim_MemAlloc) turned into request
   histories, (b) seeded random histories of the Go harness (more requests, more layouts)
3. replay on the real allocator (twin allocators, public API only) -> ndjson trace
4. trace validation: TLC on Trace_MemAlloc evaluates the property predicates on every step
5. verdict from real-code traces only; known findings matched by (predicate, signature)
"""
import concurrent.futures as cf
import json
import os
import random

import vlib

C06_PREDS = {"Act_FailAtomic", "Act_OfferPure", "Act_StaleRefused", "Act_FreshCommits",
             "Act_CommitEqualsAllocate", "Act_ReleaseOnly", "Inv_Accounting", "Act_Terminates", "Trace"}
C07_PREDS = {"Inv_NoOvercommit", "Inv_StrictTypes", "Inv_NormalNode", "Act_Monotone", "Act_Reservation",
             "Act_ExactUpdates", "Act_Terminates", "Trace"}
PREDS = {"C06": C06_PREDS, "C07": C07_PREDS}
PROPS = ["C06", "C07"]


def split_trace(path, nchunks, outdir):
    """Split an ndjson trace at `reset` lines into <= nchunks files."""
    lines = open(path).read().splitlines()
    starts = [i for i, l in enumerate(lines) if l.startswith('{"ev":"reset"')] + [len(lines)]
    nh = len(starts) - 1
    per = max(1, (nh + nchunks - 1) // nchunks)
    files = []
    for c in range(0, nh, per):
        a, b = starts[c], starts[min(c + per, nh)]
        fp = os.path.join(outdir, "chunk%03d.ndjson" % (c // per))
        with open(fp, "w") as f:
            f.write("\n".join(lines[a:b]) + "\n")
        files.append(fp)
    return files, nh, len(lines)


def validate_chunks(module, cfg, files, outdir, timeout):
    def one(fp):
        md = os.path.join(outdir, "tv-" + os.path.basename(fp))
        return vlib.validate_trace(module, cfg, fp, md, timeout=timeout, heap="3g")
    with cf.ThreadPoolExecutor(max_workers=min(len(files), vlib.NCPU)) as ex:
        return list(ex.map(one, files))


def trace_stats(path):
    """What the real-code trace exercised (vacuity guard): per category counts."""
    st = {"events": 0, "histories": 0, "ok_alloc": 0, "failed_alloc": 0, "offers": 0, "fresh_commit_ok": 0,
          "commit_refused": 0, "moves": 0, "strict_ok": 0, "reservation_ok": 0, "realloc_ok": 0, "realloc_fail": 0,
          "release_ok": 0, "twin_ok": 0, "realloc_self_push": 0, "layouts": set(), "states": set()}
    prev = {}
    for l in open(path):
        e = json.loads(l)
        if e["ev"] == "reset":
            prev = {}
            st["histories"] += 1
            st["layouts"].add(json.dumps(e["lay"]["nodes"], sort_keys=True))
            continue
        st["events"] += 1
        if e.get("hang"):
            continue
        ok = not e["res"]["err"]
        ev = e["ev"]
        if ev in ("Allocate", "AllocTwin"):
            st["ok_alloc" if ok else "failed_alloc"] += 1
            if ok and e["strict"]:
                st["strict_ok"] += 1
            if ok and e["prio"] == "reservation":
                st["reservation_ok"] += 1
            if ok and ev == "AllocTwin":
                st["twin_ok"] += 1
        elif ev == "GetOffer" and ok:
            st["offers"] += 1
        elif ev == "Commit":
            st["fresh_commit_ok" if ok else "commit_refused"] += 1
        elif ev == "Realloc":
            st["realloc_ok" if ok else "realloc_fail"] += 1
            # the re-allocated request ended up on nodes it neither had nor asked for (pushed by the overcommit handler)
            if ok and set(e["res"].get("z") or []) - set(prev.get(e.get("id"), [])) - set(e.get("nodes") or []) and not e.get("types"):
                st["realloc_self_push"] += 1
        elif ev == "Release" and ok:
            st["release_ok"] += 1
        if ok and e["res"].get("upd"):
            st["moves"] += 1
        st["states"].add(json.dumps(e["st"]["zone"], sort_keys=True) + json.dumps(e["st"]["req"], sort_keys=True))
        prev = e["st"]["zone"]
    st["layouts"] = len(st["layouts"])
    st["distinct_states"] = len(st.pop("states"))
    return st


def pressure_histories(rnd, n):
    """Directed histories the simulation/random drivers reach too rarely: requests with OVERLAPPING non-nested zones that
    nearly fill their nodes, then Reallocs that widen a small request into them -- the overcommit handler may then push
    the re-allocated request ITSELF beyond the zone it asked for (seeded change C04-m3: Realloc then returned the zone
    it asked for instead of the one assigned)."""
    hs = []
    for _ in range(n):
        nn = rnd.choice([3, 4, 4, 5])
        cap = rnd.choice([3, 4, 4, 6])
        near = rnd.random() < 0.5
        nodes = [{"id": i, "type": "DRAM", "cap": cap, "normal": True,
                  "dist": [10 if i == j else (11 if near and i // 2 == j // 2 else 21) for j in range(nn)]} for i in range(nn)]
        if rnd.random() < 0.3:
            nodes[-1]["type"], nodes[-1]["normal"] = rnd.choice([("PMEM", False), ("HBM", True), ("PMEM", True)])
        prios = ["burstable", "burstable", "guaranteed", "besteffort"]
        A = lambda i, sz, aff: {"op": "Allocate", "id": i, "size": sz, "prio": rnd.choice(prios), "strict": False, "types": [], "aff": aff}
        first = rnd.randrange(0, nn - 2)
        ops = [A("a", rnd.choice([1, 1, 2]), [first])]
        ids = ["a"]
        for j, i in enumerate("bcd"[:rnd.choice([2, 2, 3])]):
            lo = (first + j) % (nn - 1)
            ops.append(A(i, rnd.randint(cap, 2 * cap - 1), [lo, lo + 1]))
            ids.append(i)
        for _ in range(rnd.choice([1, 2, 3])):
            k = rnd.random()
            if k < 0.75:
                ops.append({"op": "Realloc", "id": rnd.choice(["a", "a", rnd.choice(ids)]),
                            "nodes": sorted(rnd.sample(range(nn), rnd.choice([1, 1, 2]))), "types": []})
            elif k < 0.9:
                ops.append({"op": "Release", "id": rnd.choice(ids[1:])})
            else:
                ops.append(A("e", rnd.choice([1, 2]), [rnd.randrange(nn)]))
        hs.append({"layout": {"name": "P%dx%d" % (nn, cap), "nodes": nodes}, "ops": ops})
    return hs


def sim_histories(ctx, num, depth, seed):
    cfg = open(os.path.join(vlib.SPEC, "Sim_MemAlloc.cfg")).read().replace("SimDepth = 12", "SimDepth = %d" % depth)
    cfgp = ctx.path("Sim_MemAlloc.cfg")
    open(cfgp, "w").write(cfg)
    r = vlib.tlc("Sim_MemAlloc", cfgp, ctx.path("sim"), workers=1, timeout=600, simulate="num=%d" % num,
                 depth=depth + 1, seed=seed)
    if not r["ok"]:
        raise vlib.Inconclusive("driver simulation failed: %s\n%s" % (r["error"], r["out"][-2000:]))
    seen, hs = set(), []
    for h in vlib.tlc_prints(r["out"], "HIST"):
        ops = h["ops"][:depth]
        key = json.dumps(ops, sort_keys=True)
        if key in seen:
            continue
        seen.add(key)
        hs.append({"layout_name": h["layout"], "ops": ops})
    return hs


def returned_zone_check(ctx):
    """Component check used by C04 (engines/l2.py): both policies pin a container to the zone Allocate/Realloc/Commit
    RETURN; the first clause of C04 therefore needs the returned zone to be the assigned one.  Runs the directed
    pressure histories on the real allocator and lets Trace_MemAlloc compare reply and assignment on every call."""
    binp = vlib.build_harness()
    hs = pressure_histories(random.Random(ctx.seed * 31 + 11), 800 if ctx.quick else 6000)
    sp, tp = ctx.path("libmem-pressure-script.json"), ctx.path("libmem-pressure.ndjson")
    json.dump(hs, open(sp, "w"))
    vlib.sh([binp, "libmem", "--out", tp, "--script", sp], timeout=600, check=True)
    files, nhist, nlines = split_trace(tp, 2 if ctx.quick else 16, ctx.out)
    viols, consumed = [], 0
    for fp, r in zip(files, validate_chunks("Trace_MemAlloc", "Trace_MemAlloc.cfg", files, ctx.out, 600 if ctx.quick else 3000)):
        if r["consumed"] is None or r["consumed"] != r["total"]:
            raise vlib.Inconclusive("libmem component trace not consumed: %s (%s of %s)\n%s" % (fp, r["consumed"], r["total"], r["res"]["out"][-2000:]))
        consumed += r["consumed"]
        for v in r["viols"]:
            if v["pred"] == "Act_ExactUpdates" and v["sig"] == "returned-zone-differs-from-assignment":
                viols.append(dict(v, pred="Inv_MemsFollowAllocator", sig="allocator-returned-zone-differs-from-assignment", component="libmem"))
    st = trace_stats(tp)
    if st["realloc_self_push"] == 0 or st["realloc_ok"] == 0:
        raise vlib.Inconclusive("libmem component check never exercised a Realloc pushed beyond its request: %s" % st)
    return viols, {"histories": nhist, "events": consumed, "realloc_ok": st["realloc_ok"], "realloc_self_push": st["realloc_self_push"],
                   "moves": st["moves"]}


def run(ctx):
    pid = ctx.pid
    q = ctx.quick
    binp = vlib.build_harness()

    if ctx.replay:
        rp = json.load(open(ctx.replay))
        hs = rp["replay"]["histories"]
        sp = ctx.path("replay-script.json")
        json.dump(hs, open(sp, "w"))
        tp = ctx.path("replay.ndjson")
        vlib.sh([binp, "libmem", "--out", tp, "--script", sp], timeout=120, check=True)
        r = vlib.validate_trace("Trace_MemAlloc", "Trace_MemAlloc.cfg", tp, ctx.path("tv-replay"), timeout=300)
        vs = [v for v in r["viols"] if v["pred"] in PREDS[pid]]
        for v in vs:
            print("replayed violation:", json.dumps(v))
        return vlib.verdict(ctx, vs, "model_checking", {"states": 1, "transitions": 1, "traces_validated_against_impl": len(hs),
                                                         "samples": hs[:1]}, ["replay"], {"histories": hs})

    # 1. design check --------------------------------------------------------------------------
    # exhaustive with at most 2 mutations per behaviour (both tiers: ~200 k states, every state costs ~25 ms because the
    # successor relation enumerates zone assignments); 3 mutations do not finish in half an hour on 16 cores, so the
    # thorough tier explores that configuration by random simulation for a bounded number of behaviours instead
    cfg = open(os.path.join(vlib.SPEC, "MC_MemAlloc.cfg")).read()
    cfgp = ctx.path("MC_MemAlloc.cfg")
    open(cfgp, "w").write(cfg.replace("MaxMut = 3", "MaxMut = 2"))
    mc = vlib.tlc("MC_MemAlloc", cfgp, ctx.path("mc"), workers=vlib.NCPU, timeout=1500, coverage=False)
    if not mc["ok"]:
        raise vlib.Inconclusive("design model check did not pass: violated=%s error=%s\n%s" %
                                (mc["violated"], mc["error"], mc["out"][-3000:]))
    deep = None
    if not q:
        cfgd = ctx.path("MC_MemAlloc_deep.cfg")
        open(cfgd, "w").write("\n".join(l for l in cfg.splitlines() if not l.startswith(("SYMMETRY", "VIEW"))) + "\n")
        deep = vlib.tlc("MC_MemAlloc", cfgd, ctx.path("mcdeep"), workers=vlib.NCPU, timeout=1800, coverage=False,
                        simulate="num=%d" % 600, depth=14, seed=ctx.seed)
        if deep["violated"] or not deep["ok"]:
            raise vlib.Inconclusive("design simulation (MaxMut = 3) did not pass: violated=%s error=%s\n%s" %
                                    (deep["violated"], deep["error"], deep["out"][-3000:]))

    # 2./3. drivers and replay -----------------------------------------------------------------
    hs = sim_histories(ctx, 40 if q else 400, 12 if q else 16, ctx.seed)
    hs = hs + pressure_histories(random.Random(ctx.seed * 31 + 7), 800 if q else 6000)
    sp = ctx.path("sim-script.json")
    json.dump(hs, open(sp, "w"))
    t_sim = ctx.path("trace-sim.ndjson")
    vlib.sh([binp, "libmem", "--out", t_sim, "--script", sp], timeout=300, check=True)
    t_rnd = ctx.path("trace-rnd.ndjson")
    hdump = ctx.path("histories-rnd.ndjson")
    nh, nops = (1500, 25) if q else (24000, 40)
    vlib.sh([binp, "libmem", "--out", t_rnd, "--seed", str(ctx.seed), "--histories", str(nh), "--ops", str(nops),
             "--dump-histories", hdump], timeout=900, check=True)
    t_all = ctx.path("trace.ndjson")
    with open(t_all, "w") as f:
        f.write(open(t_sim).read())
        f.write(open(t_rnd).read())

    # 4. trace validation ----------------------------------------------------------------------
    files, nhist, nlines = split_trace(t_all, 4 if q else 32, ctx.out)
    results = validate_chunks("Trace_MemAlloc", "Trace_MemAlloc.cfg", files, ctx.out, 600 if q else 3000)
    viols, consumed, drift = [], 0, 0
    for fp, r in zip(files, results):
        if r["consumed"] is None or r["consumed"] != r["total"]:
            raise vlib.Inconclusive("trace validation did not consume %s (%s of %s): %s\n%s" % (
                fp, r["consumed"], r["total"], r["res"]["error"], r["res"]["out"][-2500:]))
        consumed += r["consumed"]
        for v in r["viols"]:
            v["chunk"] = os.path.basename(fp)
            viols.append(v)
    mine = [v for v in viols if v["pred"] in PREDS[pid]]

    # vacuity guard ------------------------------------------------------------------------------
    st = trace_stats(t_all)
    need = {"C06": ["ok_alloc", "failed_alloc", "offers", "fresh_commit_ok", "commit_refused", "release_ok", "twin_ok", "realloc_fail"],
            "C07": ["ok_alloc", "moves", "strict_ok", "reservation_ok", "realloc_ok", "realloc_self_push"]}[pid]
    empty = [k for k in need if st[k] == 0]
    if empty:
        raise vlib.Inconclusive("drivers never exercised: %s" % empty)

    # replay payload: the histories of the violating steps (random histories are re-generated from the dump)
    payload = {"histories": pick_histories(t_all, mine[:20], hs, hdump)} if mine else None

    sample_lines = [json.loads(l) for l in open(t_all).read().splitlines()[1:3]]
    cov = {"states": mc["distinct"], "transitions": mc["generated"], "design_depth": mc["depth"],
           "design_deep_simulation": ({"config": "MaxMut = 3, 600 behaviours of depth 14 per worker", "generated": deep["generated"]}
                                      if deep else None),
           "design_config": "MC_MemAlloc: 2 layouts x 3 ids x 5 request templates, <=2 mutations, <=1 outstanding offer, VIEW+symmetry (exhaustive)",
           "traces_validated_against_impl": nhist, "trace_events": consumed,
           "model_generated_histories": len(hs), "random_histories": nh,
           "distinct_nontrivial": st["distinct_states"], "evaluations": consumed,
           "rule": "one evaluation = one public API call on the real allocator whose reply and projected state were checked by TLC "
                   "against the %s predicates; distinct = distinct (assignment, request table) states reached by the real code" % pid,
           "exercised": {k: st[k] for k in st if k != "distinct_states"},
           "predicates": sorted(PREDS[pid] - {"Trace"}),
           "samples": sample_lines, "exhaustive": False}
    return vlib.verdict(ctx, mine, "model_checking", cov,
                        ["TLC and the Json community module", "the Go harness projects the allocator state through public getters only",
                         "memory sizes are multiples of 1 MiB (units) so that TLC's 32-bit integers suffice"], payload)


def pick_histories(trace_path, viols, sim_hs, hdump):
    """Rebuild the request histories (layout + ops) of the violating trace segments from the trace itself."""
    want = {}
    for v in viols:
        want.setdefault((v["chunk"], v["h"]), v)
    out = []
    cur, curh = None, None
    hs_by_index = {}
    for l in open(trace_path):
        e = json.loads(l)
        if e["ev"] == "reset":
            cur = {"layout": {"name": e["lay"]["name"], "nodes": e["lay"]["nodes"]}, "ops": []}
            hs_by_index.setdefault(e["h"], []).append(cur)
            continue
        op = {"op": e["ev"]}
        for k_src, k_dst in (("id", "id"), ("size", "size"), ("prio", "prio"), ("strict", "strict"), ("types", "types"),
                             ("aff", "aff"), ("oid", "oid"), ("nodes", "nodes")):
            if k_src in e:
                op[k_dst] = e[k_src]
        cur["ops"].append(op)
    hidx = sorted({v["h"] for v in viols})[:5]
    for h in hidx:
        out.extend(hs_by_index.get(h, [])[:2])
    return out
